"""D-COV: which bytes of a buffer does a function write, for EVERY length and alignment?

Residue-affine abstract interpretation (DESIGN 3.1 D-FIN x D-AFF).  The length parameter N and
the address of the buffer B are split into finitely many classes:
    address  = W*p + a           a in [0,W)            (p symbolic)
    N        = n                 for n < W*Q0          (each small length its own class)
    N        = W*q + r           r in [0,W), q >= Q0   (q symbolic)
Inside one class every value the code computes from N and the address is an exact integer
linear form in (q, p) - masks with 2^k-1 / ~(2^k-1), shifts and divisions by 2^k are exact on
such forms when the symbolic coefficients are multiples of 2^k - and every comparison between
two forms is decided (q >= Q0 dominates the constants).  Loops are never iterated: LLVM's
ScalarEvolution closed form gives the trip count T and the address recurrence {S,+,s} of each
store, so a loop whose store executes in every iteration writes the interval [S, S + s*T).
The result per class is a list of byte intervals (linear forms relative to B); the caller
checks that they tile exactly [0, N).  Anything outside this fragment raises Broken (unknown),
never a verdict.
"""
from .build import Broken
from . import ir
from .facts import const_val

Q = "q"
P = "p"
OBJ = "B"


class LF(dict):
    """integer linear form over symbols q, p, B (object base); key 1 = constant"""

    @staticmethod
    def c(k):
        return LF({1: k}) if k else LF()

    def add(self, o, k=1):
        r = LF(self)
        for s, c in o.items():
            v = r.get(s, 0) + k * c
            if v:
                r[s] = v
            else:
                r.pop(s, None)
        return r

    def scale(self, k):
        return LF({s: c * k for s, c in self.items()}) if k else LF()

    def const(self):
        if not self:
            return 0
        if len(self) == 1 and 1 in self:
            return self[1]
        return None

    def __repr__(self):
        if not self:
            return "0"
        return "+".join(("%s" % c if s == 1 else ("%d*%s" % (c, s) if c != 1 else "%s" % s)) for s, c in sorted(self.items(), key=lambda kv: str(kv[0])))


class Cls:
    """one class of (alignment, length)"""

    def __init__(self, W, a, n=None, r=None, q0=None):
        self.W, self.a, self.n, self.r, self.q0 = W, a, n, r, q0

    def length(self):
        if self.n is not None:
            return LF.c(self.n)
        return LF({Q: self.W, 1: self.r})

    def addr(self):
        return LF({P: self.W, 1: self.a})

    def __repr__(self):
        if self.n is not None:
            return "address = %d (mod %d), length = %d" % (self.a, self.W, self.n)
        return "address = %d (mod %d), length = %d*q + %d with q >= %d" % (self.a, self.W, self.W, self.r, self.q0)


def classes(W=8, Q0=8):
    out = []
    for a in range(W):
        for n in range(W * Q0):
            out.append(Cls(W, a, n=n))
        for r in range(W):
            out.append(Cls(W, a, r=r, q0=Q0))
    return out


class Interp:
    def __init__(self, f, buf_arg, len_arg, cls, fixed_args=None, track_stores_to=None, mode="write", field_consts=None):
        self.f = f
        self.cls = cls
        self.buf_arg, self.len_arg = buf_arg, len_arg
        self.fixed = dict(fixed_args or {})
        self.env = {}
        self.intervals = []   # (lo LF rel. B, hi LF rel. B, width, inst id, kind)
        self.loads = []
        self.track = track_stores_to
        self.mode = mode                          # "write": bytes of the buffer written; "read": bytes read
        self.fields = dict(field_consts or {})    # (arg index, byte offset) -> constant value of that state field in this class
        self.loops = {l["header"]: l for l in f.loops}
        self.trips = {}
        for l in f.loops:
            if l["parent"] != -1:
                # an inner loop is tolerated when it never touches the tracked buffer (a helper loop over the state inside a block loop):
                # the enclosing loop's summary then has nothing to account for in it
                for b_ in l["blocks"]:
                    for iid in f.blocks[b_].insts:
                        I = f.insts[iid]
                        ptrs = []
                        if I.op == "load":
                            ptrs = [I.ops[0]]
                        elif I.op == "store":
                            ptrs = [I.ops[1]]
                        elif I.op == "call" and not I.is_dbg() and not I.is_lifetime():
                            ptrs = [a for a in I.call_args() if a[0] in ("i", "a")]
                        if any(self._derives_from_buf(tuple(p_)) for p_ in ptrs):
                            raise Broken("D-COV: nested loops in %s touch the buffer" % f.name)

    # -- values ------------------------------------------------------------------
    def val(self, v):
        k = v[0]
        if k == "c":
            x = int(v[1])
            if v[2] >= 8 and x >> (v[2] - 1):
                x -= 1 << v[2]
            return LF.c(x)
        if k == "n":
            return LF()
        if k == "a":
            if v[1] == self.buf_arg:
                return LF({OBJ: 1})
            if v[1] == self.len_arg:
                return self.cls.length()
            if v[1] in self.fixed:
                return LF.c(self.fixed[v[1]])
            return None
        if k == "i":
            return self.env.get(v)
        return None

    def addr_form(self, lf):
        """replace the object base by its numeric address class (for bit operations on addresses)"""
        if lf is None:
            return None
        if OBJ in lf:
            r = LF(lf)
            k = r.pop(OBJ)
            return r.add(self.cls.addr(), k)
        return lf

    def cmp(self, pred, a, b):
        if a is None or b is None:
            return None
        d = self.addr_form(a).add(self.addr_form(b), -1) if (OBJ in a) != (OBJ in b) else a.add(b, -1)
        return self.sign_decide(pred, d, a, b)

    def sign_decide(self, pred, d, a, b):
        """decide a pred b (unsigned unless s-pred) from d = a - b; all quantities are non-negative integers < 2^63"""
        if pred in ("eq", "ne"):
            k = d.const()
            if k is not None:
                return (k == 0) == (pred == "eq")
            s = self.sign(d)
            if s in (1, -1):
                return pred == "ne"
            return None
        # unsigned compares need both sides non-negative (no wrap); negative constants appear only via 'n - k' underflow
        if pred in ("ult", "ule", "ugt", "uge"):
            sa, sb = self.sign(a), self.sign(b)
            if sa == -1 or sb == -1:
                return None
        s = self.sign(d)
        if s is None:
            return None
        return {"ult": s < 0, "slt": s < 0, "ule": s <= 0, "sle": s <= 0, "ugt": s > 0, "sgt": s > 0, "uge": s >= 0, "sge": s >= 0}.get(pred)

    def sign(self, d):
        """sign of a form given q >= Q0 and p >= 0 large: -1, 0, 1 or None"""
        k = d.const()
        if k is not None:
            return (k > 0) - (k < 0)
        if OBJ in d or P in d:
            return None
        cq = d.get(Q, 0)
        c0 = d.get(1, 0)
        q0 = self.cls.q0 or 0
        if cq > 0 and cq * q0 + c0 > 0:
            return 1
        if cq < 0 and cq * q0 + c0 < 0:
            return -1
        return None

    def bitop(self, op, x, kconst):
        """x & mask, x >> k, x << k on an address/length form; exact or None"""
        x = self.addr_form(x)
        if x is None:
            return None
        if op == "and":
            m = kconst & ((1 << 64) - 1)
            # low mask 2^k - 1
            if m & (m + 1) == 0:
                k = m.bit_length()
                if all(c % (1 << k) == 0 for s, c in x.items() if s != 1):
                    return LF.c(x.get(1, 0) & m)
                return None
            # high mask ~(2^k - 1)
            inv = (~m) & ((1 << 64) - 1)
            if inv & (inv + 1) == 0:
                k = inv.bit_length()
                if all(c % (1 << k) == 0 for s, c in x.items() if s != 1) and self.sign(LF({s: c for s, c in x.items()})) != -1:
                    r = LF(x)
                    c0 = r.pop(1, 0)
                    return r.add(LF.c(c0 - (c0 % (1 << k))))
                return None
            if m == (1 << 32) - 1 or m == (1 << 64) - 1:
                return x
            return None
        if op in ("lshr", "udiv"):
            k = kconst if op == "lshr" else (kconst.bit_length() - 1 if kconst & (kconst - 1) == 0 and kconst > 0 else None)
            if k is None:
                return None
            if all(c % (1 << k) == 0 for s, c in x.items() if s != 1) and (x.get(1, 0) >= 0 or self.sign(x) == 1):
                return LF({s: c >> k for s, c in x.items() if (c >> k) != 0})
            return None
        if op == "urem":
            if kconst > 0 and kconst & (kconst - 1) == 0:
                return self.bitop("and", x, kconst - 1)
            return None
        if op == "shl":
            return x.scale(1 << kconst)
        return None

    # -- SCEV evaluation ---------------------------------------------------------
    def scev(self, s):
        r = self._scev(s)
        w = s.get("w")
        if r is not None and w is not None and w < 32:
            # narrow modular arithmetic (e.g. (-address) mod 4 written in i2): reduce exactly
            k = r.const()
            if k is not None:
                return LF.c(k & ((1 << w) - 1))
            return self.bitop("and", r, (1 << w) - 1)
        return r

    def _scev(self, s):
        k = s["k"]
        if k == "rec":
            # recurrence of a loop that has already been left: its value at that loop's exit
            h = s["loop"]
            if h in self.trips and s.get("affine") and len(s["ops"]) == 2:
                S, st = self.scev(s["ops"][0]), self.scev(s["ops"][1])
                if S is None or st is None or st.const() is None:
                    return None
                return S.add(self.trips[h].scale(st.const()))
            return None
        if k == "c":
            return LF.c(int(s["v"]))
        if k == "u":
            return self.val(tuple(s["v"]) if not isinstance(s["v"], tuple) else s["v"])
        if k == "add":
            r = LF()
            for o in s["ops"]:
                x = self.scev(o)
                if x is None:
                    return None
                r = r.add(x)
            return r
        if k == "mul":
            c, rest = 1, None
            for o in s["ops"]:
                x = self.scev(o)
                if x is None:
                    return None
                kk = x.const()
                if kk is not None:
                    c *= kk
                elif rest is None:
                    rest = x
                else:
                    return None
            return LF.c(c) if rest is None else rest.scale(c)
        if k == "udiv":
            l, r = self.scev(s["l"]), self.scev(s["r"])
            if l is None or r is None or r.const() is None:
                return None
            return self.bitop("udiv", l, r.const())
        if k in ("zext", "sext", "trunc", "ptrtoint"):
            x = self.scev(s["op"])
            if k == "trunc" and x is not None:
                bits = s["bits"]
                if bits < 32:
                    return self.bitop("and", x, (1 << bits) - 1)
            return x
        if k in ("umin", "umax", "smin", "smax"):
            xs = [self.scev(o) for o in s["ops"]]
            if any(x is None for x in xs):
                return None
            cur = xs[0]
            for x in xs[1:]:
                lt = self.cmp("ult", cur, x)
                if lt is None:
                    return None
                if k in ("umin", "smin"):
                    cur = cur if lt else x
                else:
                    cur = x if lt else cur
            return cur
        return None

    # -- run -----------------------------------------------------------------------
    def run(self):
        f = self.f
        b, pred = 0, None
        visited = set()
        steps = 0
        while True:
            steps += 1
            if steps > 400:
                raise Broken("D-COV: path too long in %s" % f.name)
            if b in self.loops and (b, "in") not in visited:
                visited.add((b, "in"))
                b, pred = self.summarise(self.loops[b], pred)
                continue
            blk = f.blocks[b]
            for iid in blk.insts:
                I = f.insts[iid]
                if I.op == "phi":
                    for inc, pb in I.get("inc"):
                        if pb == pred:
                            self.env[("i", I.id)] = self.val(tuple(inc))
                    continue
                if I.is_dbg() or I.is_lifetime():
                    continue
                self.step(I)
            t = f.term(b)
            if t.op == "ret":
                return
            if t.op != "br":
                raise Broken("D-COV: unsupported terminator %s" % t.op)
            succ = t.get("succ")
            if not t.get("cond"):
                pred, b = b, succ[0]
                continue
            c = t.ops[0]
            dec = (int(c[1]) != 0) if c[0] == "c" else self.env.get(("cond", c))
            if dec is None:
                raise Broken("D-COV: branch at %s not decided within class {%s}" % (t.where, self.cls))
            pred, b = b, (succ[0] if dec else succ[1])

    def step(self, I):
        op, o, k = I.op, I.ops, ("i", I.id)
        if op in ("bitcast", "zext", "sext", "ptrtoint", "inttoptr", "freeze"):
            self.env[k] = self.val(o[0])
            return
        if op == "trunc":
            x = self.val(o[0])
            self.env[k] = x if (x is not None and (I.bits >= 32 or (x.const() is not None and 0 <= x.const() < (1 << I.bits)))) else (self.bitop("and", x, (1 << I.bits) - 1) if x is not None else None)
            return
        if op in ("add", "sub"):
            a, b = self.val(o[0]), self.val(o[1])
            self.env[k] = None if a is None or b is None else a.add(b, 1 if op == "add" else -1)
            return
        if op == "mul":
            a, b = self.val(o[0]), self.val(o[1])
            if a is not None and b is not None:
                if a.const() is not None:
                    self.env[k] = b.scale(a.const())
                    return
                if b.const() is not None:
                    self.env[k] = a.scale(b.const())
                    return
            self.env[k] = None
            return
        if op in ("and", "lshr", "shl", "udiv", "urem"):
            a, b = self.val(o[0]), self.val(o[1])
            if a is not None and b is not None and b.const() is not None:
                self.env[k] = self.bitop(op, a, b.const())
            elif op == "and" and a is not None and b is not None and a.const() is not None:
                self.env[k] = self.bitop(op, b, a.const())
            else:
                self.env[k] = None
            return
        if op == "getelementptr":
            base = self.val(o[0])
            off = I.get("off")
            if base is None or off is None:
                self.env[k] = None
                return
            r = base.add(LF.c(off))
            for (vv, sc) in I.get("var") or ():
                x = self.val(tuple(vv))
                if x is None:
                    self.env[k] = None
                    return
                r = r.add(x, int(sc))
            self.env[k] = r
            return
        if op == "icmp":
            a, b = self.val(o[0]), self.val(o[1])
            self.env[("cond", k)] = self.cmp(I.get("pred"), a, b)
            self.env[k] = None
            return
        if op == "select":
            c = self.env.get(("cond", o[0]))
            if c is None:
                a, b = self.val(o[1]), self.val(o[2])
                self.env[k] = a if (a is not None and a == b) else None
            else:
                self.env[k] = self.val(o[1] if c else o[2])
            return
        if op == "load":
            self.env[k] = None
            b_, o_ = ir.ptr_base(self.f, o[0])
            if b_[0] == "a" and (b_[1], o_) in self.fields:
                self.env[k] = LF.c(self.fields[(b_[1], o_)])
            if self.mode == "read":
                ptr = self.val(o[0])
                if ptr is not None and OBJ in ptr:
                    lo = self._rel(ptr)
                    self.intervals.append((lo, lo.add(LF.c(I.get("size"))), I.get("size"), I.id, "load"))
            return
        if op == "store":
            b_, o_ = ir.ptr_base(self.f, o[1])
            if b_[0] == "a" and (b_[1], o_) in self.fields:
                v_ = self.val(o[0])
                if v_ is not None and v_.const() is not None:
                    self.fields[(b_[1], o_)] = v_.const()
                else:
                    del self.fields[(b_[1], o_)]
            if self.mode == "write":
                self.record_store(I, self.val(o[1]), I.get("size"), 1, None)
            return
        if op == "call":
            intr = I.get("intrinsic") or ""
            if intr.startswith(("llvm.umin", "llvm.umax")):
                a, b = self.val(I.call_args()[0]), self.val(I.call_args()[1])
                lt = self.cmp("ult", a, b)
                self.env[k] = None if lt is None else ((a if lt else b) if intr.startswith("llvm.umin") else (b if lt else a))
                return
            if intr.startswith("llvm.memset") or intr.startswith("llvm.memcpy") or intr.startswith("llvm.memmove"):
                a = I.call_args()
                which = a[0] if self.mode == "write" else (a[1] if not intr.startswith("llvm.memset") else None)
                if which is None:
                    return
                d, n = self.val(which), self.val(a[2])
                if d is not None and OBJ in d:
                    if n is None:
                        raise Broken("D-COV: mem intrinsic on the buffer with unknown length")
                    self.intervals.append((self._rel(d), self._rel(d).add(n), 0, I.id, "mem"))
                elif d is None and self._derives_from_buf(which):
                    raise Broken("D-COV: mem intrinsic on the buffer at an address outside the domain (%s)" % I.where)
                return
            self.env[k] = None
            for a in I.call_args():
                x = self.val(a)
                if x is not None and OBJ in x:
                    callee = I.callee
                    raise Broken("D-COV: buffer passed to %s" % callee)
            return
        self.env[k] = None

    def _rel(self, ptr):
        r = LF(ptr)
        if r.pop(OBJ, 0) != 1:
            raise Broken("D-COV: pointer is not buffer base + offset")
        return r

    def record_store(self, I, ptr, width, count, step):
        if ptr is None:
            if self.track is None:
                raise Broken("D-COV: store through an unknown pointer at %s" % I.where)
            return
        if OBJ not in ptr:
            return
        lo = self._rel(ptr)
        self.intervals.append((lo, lo.add(LF.c(width)), width, I.id, "store"))

    def summarise(self, L, pred):
        """closed-form effect of a whole loop; returns (exit block, exiting block)"""
        f = self.f
        hdr = L["header"]
        two = len(L["exiting"]) == 2 and len(set(L["exits"])) == 1
        if not two and (len(L["exiting"]) != 1 or len(L["exits"]) != 1):
            raise Broken("D-COV: loop with several exits in %s" % f.name)
        # header phis take their initial values first (needed by SCEV unknowns defined by phis outside)
        init = {}
        for iid in f.blocks[hdr].insts:
            I = f.insts[iid]
            if I.op != "phi":
                break
            for inc, pb in I.get("inc"):
                if pb == pred:
                    init[I.id] = self.val(tuple(inc))
        taken = None
        if two:
            # `while (len > 0 && ((uintptr_t)p & 3) != 0)`: a count-down and a test of the cursor's alignment, both before the body
            tt = self.two_exit_trip(L, init)
            if tt is None:
                raise Broken("D-COV: loop with two exits in %s that are not a header count-down plus an alignment test of the cursor" % f.name)
            T, taken = tt
        else:
            T = self.scev(L["btc"])
            if T is None:
                T = self.trip_from_exit(L, init)
            if T is None and L["exiting"] != [hdr]:
                # the same two tests with the `&&` merged into one exiting block (unoptimised code shape)
                tt = self.two_exit_trip(L, init)
                if tt is not None:
                    T, taken = tt
                    two = True
        if T is None:
            raise Broken("D-COV: trip count %s of the loop at %s not expressible in class {%s}" % (L["btc_text"], f.term(hdr).where, self.cls))
        if self.sign(T) == -1:
            raise Broken("D-COV: negative trip count")
        self.trips[hdr] = T
        strided = []
        exiting = L["exiting"][0] if not two else hdr
        second = None if not two else ([x for x in L["exiting"] if x != hdr] + [None])[0]
        between = set() if not two else self._test_blocks(L)
        # stores inside the loop
        for b in L["blocks"]:
            for iid in f.blocks[b].insts:
                I = f.insts[iid]
                if I.op == "store" and self.mode == "write":
                    Pp = f.inst(I.ops[1])
                    sc = Pp.get("scev") if Pp is not None else None
                    base = None
                    if sc and sc.get("k") == "rec" and sc.get("affine") and sc["loop"] == hdr:
                        S, st = self.scev(sc["ops"][0]), self.scev(sc["ops"][1])
                        if S is not None and st is not None and st.const() is not None:
                            base = (S, st.const())
                    elif sc is None or sc.get("k") != "rec":
                        # loop-invariant address?
                        x = self.val(I.ops[1]) if (Pp is None or Pp.b not in L["blocks"]) else None
                        if x is not None and OBJ not in x:
                            continue
                    if base is None:
                        # does it touch the buffer at all?  decide via pointer base
                        pb_, _ = ir.ptr_base(f, I.ops[1])
                        if pb_ == ("a", self.buf_arg) or self._derives_from_buf(I.ops[1]):
                            raise Broken("D-COV: store to the buffer at %s has no affine address recurrence" % I.where)
                        continue
                    S, st = base
                    if OBJ not in S:
                        continue
                    if I.b in between:
                        raise Broken("D-COV: store to the buffer between the two tests of a loop at %s" % I.where)
                    w = I.get("size")
                    execs = T.add(LF.c(1)) if (f.dominates_block(I.b, exiting) and True) and I.b == exiting or (f.dominates_block(I.b, exiting) and I.b != hdr and exiting != hdr) else T
                    # header-exiting loops: body blocks run T times; latch-exiting: blocks dominating the exiting block run T+1 times
                    if exiting == hdr:
                        execs = T
                        uncond = all(f.dominates_block(I.b, l) for l in L["latches"])
                    else:
                        execs = T.add(LF.c(1))
                        uncond = f.dominates_block(I.b, exiting)
                    if not uncond:
                        raise Broken("D-COV: conditional store inside the loop at %s" % I.where)
                    if st != w:
                        # one of several stores per iteration (an unrolled loop: 8 words per round): decided as a group below
                        strided.append((self._rel(S), st, w, I, execs))
                        continue
                    lo = self._rel(S)
                    self.intervals.append((lo, lo.add(execs.scale(w)), w, I.id, "loop"))
                elif I.op == "call" and not I.is_dbg() and not I.is_lifetime():
                    intr = I.get("intrinsic") or ""
                    if intr.startswith(("llvm.memcpy", "llvm.memset", "llvm.memmove")):
                        a = I.call_args()
                        which = a[0] if self.mode == "write" else (a[1] if not intr.startswith("llvm.memset") else None)
                        other = [x for x in a[:2] if x != which]
                        if which is not None and self._derives_from_buf(which):
                            Pp = f.inst(which)
                            sc = Pp.get("scev") if Pp is not None else None
                            n_ = self.val(a[2])
                            if not (sc and sc.get("k") == "rec" and sc.get("affine") and sc["loop"] == hdr) or n_ is None or n_.const() is None:
                                raise Broken("D-COV: mem intrinsic on the buffer inside a loop without affine address / constant length at %s" % I.where)
                            S, st = self.scev(sc["ops"][0]), self.scev(sc["ops"][1])
                            if S is None or st is None or st.const() != n_.const() or exiting != hdr or not all(f.dominates_block(I.b, l) for l in L["latches"]):
                                raise Broken("D-COV: mem intrinsic in loop not contiguous/unconditional at %s" % I.where)
                            lo = self._rel(S)
                            self.intervals.append((lo, lo.add(T.scale(n_.const())), n_.const(), I.id, "loop-mem"))
                        continue
                    for a in I.call_args():
                        if self._derives_from_buf(a):
                            raise Broken("D-COV: call with the buffer inside a loop")
                elif I.op == "load" and self.mode == "read" and self._derives_from_buf(I.ops[0]):
                    Pp = f.inst(I.ops[0])
                    sc = Pp.get("scev") if Pp is not None else None
                    if not (sc and sc.get("k") == "rec" and sc.get("affine") and sc["loop"] == hdr):
                        raise Broken("D-COV: load from the buffer inside a loop without affine address at %s" % I.where)
                    S, st = self.scev(sc["ops"][0]), self.scev(sc["ops"][1])
                    w = I.get("size")
                    if S is None or st is None or st.const() is None or exiting != hdr:
                        raise Broken("D-COV: load recurrence not expressible at %s" % I.where)
                    if not all(f.dominates_block(I.b, l) for l in L["latches"]):
                        raise Broken("D-COV: conditional load inside the loop at %s" % I.where)
                    lo = self._rel(S)
                    if st.const() == w:
                        self.intervals.append((lo, lo.add(T.scale(w)), w, I.id, "loop-load"))
                    else:
                        # strided single bytes (e.g. byte k of each word): record the hull; exactness is then not claimed
                        self.intervals.append((lo, lo.add(T.scale(st.const())).add(LF.c(w - st.const())), w, I.id, "loop-load-strided"))
        if strided:
            # the stores of one iteration must be adjacent and together as wide as the stride: then the iterations tile a contiguous range
            sts = {x[1] for x in strided}
            exs = {repr(x[4]) for x in strided}
            if len(sts) != 1 or len(exs) != 1:
                raise Broken("D-COV: stores with different strides in one loop at %s" % strided[0][3].where)
            st = strided[0][1]
            base = strided[0][0]
            offs = []
            for (lo, _st, w, I, _e) in strided:
                d = lo.add(base, -1).const()
                if d is None:
                    raise Broken("D-COV: stores of one iteration at unrelated addresses at %s" % I.where)
                offs.append((d, w, I, lo))
            offs.sort(key=lambda x: x[0])
            pos = offs[0][0]
            for d, w, I, lo in offs:
                if d != pos:
                    raise Broken("D-COV: store stride %d with stores that are not adjacent (gap or overlap at offset %d) at %s" % (st, d, I.where))
                pos += w
            if pos - offs[0][0] != st or st <= 0:
                raise Broken("D-COV: store stride %d != %d bytes stored per iteration at %s" % (st, pos - offs[0][0], offs[0][2].where))
            glo = offs[0][3]
            ghi = glo.add(strided[0][4].scale(st))
            for d, w, I, lo in offs:
                self.intervals.append((glo, ghi, w, I.id, ("loop-group", lo)))
        # exit values of the header phis: start + step * (number of completed iterations)
        for iid in f.blocks[hdr].insts:
            I = f.insts[iid]
            if I.op != "phi":
                break
            sc = I.get("scev")
            v = None
            if sc and sc.get("k") == "rec" and sc.get("affine"):
                S, st = self.scev(sc["ops"][0]), self.scev(sc["ops"][1])
                if S is not None and st is not None and st.const() is not None:
                    v = S.add(T.scale(st.const()))
            self.env[("i", I.id)] = v
        if exiting != hdr:
            # bottom-tested (do/while) loop: the body ran btc + 1 times (accounted for above).  Values defined inside the loop are
            # not tracked beyond it: anything after the loop that needs one is undecided there (None), never guessed
            if exiting not in L["latches"]:
                raise Broken("D-COV: loop in %s leaves from the middle of its body: unsupported shape" % f.name)
            for b in L["blocks"]:
                for iid in f.blocks[b].insts:
                    self.env[("i", iid)] = None
            return L["exits"][0], exiting
        # evaluate the rest of the header block with the exit values, then leave through the exit edge
        for iid in f.blocks[hdr].insts:
            I = f.insts[iid]
            if I.op == "phi" or I.is_dbg() or I.is_lifetime() or I.op == "br":
                continue
            self.step(I)
        if taken is not None and taken != hdr:
            for iid in f.blocks[taken].insts:
                I = f.insts[iid]
                if I.op == "phi" or I.is_dbg() or I.is_lifetime() or I.op == "br":
                    continue
                self.step(I)
            return L["exits"][0], taken
        return L["exits"][0], hdr

    def _test_blocks(self, L):
        """blocks of a two-test loop that belong to its tests (everything that does not dominate... is not dominated by the last test)"""
        f = self.f
        hdr = L["header"]
        last = [x for x in L["exiting"] if x != hdr]
        last = last[0] if last else L["exiting"][0]
        return {b for b in L["blocks"] if b == hdr or b == last or not f.dominates_block(last, b)}

    def two_exit_trip(self, L, init):
        """(trip count, block the loop is left from) of a loop with two tests in front of its body: the header's count-down of the
        remaining length and, in the block after it, `(address of the cursor & (2^k - 1)) != 0` with the cursor advancing by one byte"""
        f = self.f
        hdr = L["header"]
        th = f.term(hdr)
        if th.op != "br" or not th.get("cond"):
            return None
        merged = hdr not in L["exiting"]
        if not merged:
            b2 = [x for x in L["exiting"] if x != hdr][0]
            if b2 not in th.get("succ") or list(f.blocks[b2].preds) != [hdr]:
                return None
            t2 = f.term(b2)
            if t2.op != "br" or not t2.get("cond"):
                return None
            C = f.inst(t2.ops[0])
            stay_on_true = t2.get("succ")[0] in L["blocks"]
            leave = b2
        else:
            # header: `len > 0 ? second test : join`; second test block falls into the join; the join leaves on phi [false, second test]
            E = L["exiting"][0]
            te = f.term(E)
            if te.op != "br" or not te.get("cond") or E not in th.get("succ"):
                return None
            b2 = [x for x in th.get("succ") if x != E]
            if len(b2) != 1 or list(f.blocks[b2[0]].preds) != [hdr] or list(f.blocks[b2[0]].succs) != [E] or sorted(f.blocks[E].preds) != sorted([hdr, b2[0]]):
                return None
            b2 = b2[0]
            Ph = f.inst(te.ops[0])
            if Ph is None or Ph.op != "phi" or Ph.b != E:
                return None
            inc = {pb: tuple(v) for v, pb in Ph.get("inc")}
            if inc.get(hdr, ("?",))[0] != "c" or int(inc[hdr][1]) != 0 or th.get("succ")[0] != b2:
                return None             # (the header must leave on false, and stay means: both tests true)
            C = f.inst(inc.get(b2))
            stay_on_true = te.get("succ")[0] in L["blocks"]
            if [x for x in f.blocks[E].insts if f.insts[x].op not in ("phi", "br") and not f.insts[x].is_dbg()]:
                return None
            leave = E
        for iid in f.blocks[b2].insts:
            I = f.insts[iid]
            if I.op in ("store", "call") and not I.is_dbg() and not I.is_lifetime():
                return None
        T1 = self.trip_from_exit(L, init, force=True)
        if T1 is None:
            return None
        if C is None or C.op != "icmp" or C.get("pred") not in ("ne", "eq"):
            return None
        if (C.get("pred") == "ne") != stay_on_true:
            return None             # the loop must go on while the low address bits are non-zero
        x, z = C.ops
        if not (z[0] == "c" and int(z[1]) == 0):
            return None
        A = f.inst(tuple(x))
        if A is None or A.op != "and":
            return None
        val, msk = (A.ops[0], A.ops[1]) if A.ops[1][0] == "c" else (A.ops[1], A.ops[0])
        if msk[0] != "c":
            return None
        m = int(msk[1])
        if m <= 0 or (m & (m + 1)) or (m + 1) > self.cls.W:
            return None
        J = f.inst(tuple(val))
        while J is not None and J.op in ("zext", "trunc", "ptrtoint", "bitcast"):
            prev = J
            J = f.inst(tuple(J.ops[0]))
        if J is None or J.op != "phi" or J.b != hdr:
            return None
        # the cursor advances by exactly one byte per iteration
        sc = J.get("scev")
        if not (sc and sc.get("k") == "rec" and sc.get("affine") and sc["loop"] == hdr):
            return None
        st = self.scev(sc["ops"][1])
        S = init.get(J.id)
        if st is None or st.const() != 1 or S is None:
            return None
        low = self.bitop("and", S, m)
        if low is None or low.const() is None:
            return None
        T2 = LF.c((-low.const()) % (m + 1))
        d = T1.add(T2, -1)
        sg = self.sign(d)
        if sg is None:
            return None
        if merged:
            return (T2 if sg > 0 else T1, leave)
        return (T2, b2) if sg > 0 else (T1, hdr)

    def trip_from_exit(self, L, init, force=False):
        """trip count of a while-shaped loop from its header test when SCEV gives up:
        'phi >= K' / 'phi > K' / 'phi != 0' with phi = {S,+,-s};  'phi < E' with phi = {S,+,s}"""
        f = self.f
        hdr = L["header"]
        if L["exiting"] != [hdr] and not force:
            return None
        t = f.term(hdr)
        if t.op != "br" or not t.get("cond"):
            return None
        C = f.inst(t.ops[0])
        if C is None or C.op != "icmp":
            return None
        succ = t.get("succ")
        stay_on_true = succ[0] in L["blocks"]
        pred = C.get("pred")
        if not stay_on_true:
            pred = {"uge": "ult", "ugt": "ule", "ult": "uge", "ule": "ugt", "ne": "eq", "eq": "ne"}.get(pred)
        a, b = C.ops

        def rec_of(v):
            I = f.inst(v)
            while I is not None and I.op in ("zext", "trunc", "sext") and I.b == hdr:
                I = f.inst(I.ops[0])
            if I is None or I.op != "phi" or I.b != hdr:
                return None
            sc = I.get("scev")
            S = init.get(I.id)
            # step from the back-edge value
            st = None
            for inc, pb in I.get("inc"):
                if pb in L["blocks"]:
                    J = f.inst(tuple(inc))
                    while J is not None and J.op in ("zext", "trunc", "sext"):
                        J = f.inst(J.ops[0])
                    j0 = J.ops[0] if J is not None and J.op in ("add", "sub") else None
                    while j0 is not None and f.inst(j0) is not None and f.inst(j0).op in ("zext", "trunc", "sext"):
                        j0 = f.inst(j0).ops[0]
                    if J is not None and J.op in ("add", "sub") and j0 == ("i", I.id) and J.ops[1][0] == "c":
                        k = const_val(J.ops[1])
                        bits = J.bits or 64
                        if k >> (bits - 1):
                            k -= 1 << bits
                        st = k if J.op == "add" else -k
            if S is None or st is None:
                return None
            return S, st
        ra = rec_of(a)
        kb = self.val(b)
        if ra is None or kb is None:
            return None
        S, st = ra
        if pred in ("uge", "ugt", "ne") and st < 0:
            K = kb if pred == "uge" else kb.add(LF.c(1))
            if pred == "ne":
                if kb.const() != 0 or st != -1:
                    return None
                K = LF.c(1)
            # iterations while S - i*s >= K : floor((S-K)/s) + 1 if S >= K else 0
            d = S.add(K, -1)
            sg = self.sign(d)
            if sg is None:
                return None
            if sg < 0:
                return LF()
            s_ = -st
            if s_ == 1:
                return d.add(LF.c(1))
            if s_ & (s_ - 1):
                return None
            q = self.bitop("lshr", d, s_.bit_length() - 1)
            if q is None:
                # constant remainder case: subtract (d mod s) first
                rem = self.bitop("and", d, s_ - 1)
                if rem is None or rem.const() is None:
                    return None
                q = self.bitop("lshr", d.add(rem, -1), s_.bit_length() - 1)
            return None if q is None else q.add(LF.c(1))
        return None

    def _derives_from_buf(self, v):
        f = self.f
        seen = set()
        st = [v]
        while st:
            x = st.pop()
            if x in seen:
                continue
            seen.add(x)
            if x == ("a", self.buf_arg):
                return True
            I = f.inst(x)
            if I is None:
                continue
            if I.op in ("getelementptr", "bitcast"):
                st.append(I.ops[0])
            elif I.op in ("phi", "select"):
                st.extend(o for o in I.ops if o[0] in ("i", "a"))
        return False


def tiling(intervals, length, interp, verb="written", only_over=False):
    """do the intervals tile exactly [0, length)?  returns (True, None) / (False, description) / raises Broken"""
    ivs = [(lo, hi) for (lo, hi, w, iid, kind) in intervals]
    # drop empty intervals
    nonempty = []
    for lo, hi in ivs:
        s = interp.sign(hi.add(lo, -1))
        if s is None:
            raise Broken("D-COV: extent of a written interval is undecided in class {%s}" % interp.cls)
        if s > 0:
            nonempty.append((lo, hi))
        elif s < 0:
            raise Broken("D-COV: negative extent")
    # sort by lo using decided comparisons
    import functools

    def cmpf(x, y):
        s = interp.sign(x[0].add(y[0], -1))
        if s is None:
            raise Broken("D-COV: order of written intervals undecided in class {%s}" % interp.cls)
        return s
    nonempty.sort(key=functools.cmp_to_key(cmpf))
    cur = LF()
    for lo, hi in nonempty:
        s = interp.sign(lo.add(cur, -1))
        if s is None:
            raise Broken("D-COV: adjacency undecided")
        if s > 0 and not only_over:
            return False, "bytes [%s, %s) are never %s" % (cur, lo, verb)
        if s < 0:
            # overlap: allowed (re-writing) but track the furthest end
            pass
        s2 = interp.sign(hi.add(cur, -1))
        if s2 is None:
            raise Broken("D-COV: interval end undecided")
        if s2 > 0:
            cur = hi
    s = interp.sign(cur.add(length, -1))
    if s is None:
        raise Broken("D-COV: total extent undecided")
    if s < 0 and not only_over:
        return False, "bytes [%s, %s) at the end are never %s" % (cur, length, verb)
    if s > 0:
        return False, "bytes [%s, %s) beyond the declared length are %s" % (length, cur, verb)
    for lo, hi in nonempty:
        if interp.sign(lo) == -1:
            return False, "bytes before the buffer (offset %s) are %s" % (lo, verb)
    return True, None


def coverage(f, buf_arg, len_arg, fixed_args=None, W=8, Q0=8, mode="write", field_consts=None, only_over=False):
    """analyse all classes; returns (n classes, first failing (class, why) or None, per-class store ids).  Classes are residues modulo W
    (address and length); a loop that consumes more than W bytes per round (an unrolled word loop) has no expressible trip count there:
    the analysis is then repeated with residues modulo 32"""
    try:
        return _coverage(f, buf_arg, len_arg, fixed_args, W, Q0, mode, field_consts, only_over)
    except Broken as e:
        if W >= 32 or "trip count" not in str(e):
            raise
        return _coverage(f, buf_arg, len_arg, fixed_args, 32, 2, mode, field_consts, only_over)


def _coverage(f, buf_arg, len_arg, fixed_args, W, Q0, mode, field_consts, only_over):
    bad = None
    n = 0
    used = set()
    for cls in classes(W, Q0):
        it = Interp(f, buf_arg, len_arg, cls, fixed_args, mode=mode, field_consts=field_consts)
        it.run()
        n += 1
        for iv in it.intervals:
            used.add(iv[3])
        ok, why = tiling(it.intervals, cls.length(), it, "written" if mode == "write" else "read", only_over=only_over)
        if not ok and bad is None:
            bad = (cls, why)
    return n, bad, used


def aligned_accesses(f, buf_arg, len_arg, fixed_args=None, W=8, Q0=8):
    """instructions accessing the buffer with a width w > 1 whose address is a multiple of w in every (alignment, length) class in which
    they execute -> set of instruction ids shown aligned, set shown misaligned in some class (with the class)"""
    try:
        return _aligned_accesses(f, buf_arg, len_arg, fixed_args, W, Q0)
    except Broken as e:
        if W >= 32 or "trip count" not in str(e):
            raise
        return _aligned_accesses(f, buf_arg, len_arg, fixed_args, 32, 2)


def _aligned_accesses(f, buf_arg, len_arg, fixed_args, W, Q0):
    good, badm = set(), {}
    for mode in ("write", "read"):
        for cls in classes(W, Q0):
            it = Interp(f, buf_arg, len_arg, cls, fixed_args, mode=mode)
            it.run()
            for (lo, hi, w, iid, kind) in it.intervals:
                if w <= 1 or W % w:
                    continue
                ext = it.sign(hi.add(lo, -1))
                if ext == 0:
                    continue            # not executed in this class
                if isinstance(kind, tuple):
                    lo = kind[1]            # one store of a group: its own first address
                ok = ext is not None and all(c % w == 0 for s_, c in lo.items() if s_ != 1) and (cls.a + lo.get(1, 0)) % w == 0
                if ok:
                    good.add(iid)
                else:
                    badm.setdefault(iid, repr(cls))
    return good - set(badm), badm
