"""Scratch builds of /repo's working tree into LLVM IR + facts.

Everything is rebuilt from the current working tree on every run.  The only
thing cached (under /verif/.cache, keyed by a hash of the cmake inputs) is the
result of cmake's *feature detection* (config.h + the compile flags of the
tinyjambu_static target), because that depends on the host and the cmake
files only, not on the library sources.
"""
import hashlib, json, os, shlex, shutil, subprocess, sys, tempfile, atexit
from concurrent.futures import ThreadPoolExecutor

VERIF = os.path.dirname(os.path.dirname(os.path.abspath(__file__)))
REPO = os.environ.get("TJ_REPO", "/repo")
TJFACTS = os.path.join(VERIF, "bin", "tjfacts")
CLANG = "clang"
OPT = "opt-14"
LLVM_LINK = "llvm-link-14"


class Broken(Exception):
    """Analysis cannot be carried out (exit 2): build failure, vanished anchor,
    floor not met, unrecognised idiom."""


def run(cmd, **kw):
    p = subprocess.run(cmd, stdout=subprocess.PIPE, stderr=subprocess.PIPE, text=True, **kw)
    return p


_scratch_dirs = []


def scratch(prefix="tjv-"):
    base = os.environ.get("TJ_SCRATCH_BASE") or tempfile.gettempdir()
    d = tempfile.mkdtemp(prefix=prefix, dir=base)
    _scratch_dirs.append(d)
    return d


def _cleanup():
    for d in _scratch_dirs:
        shutil.rmtree(d, ignore_errors=True)


atexit.register(_cleanup)


def _cmake_inputs_hash(repo):
    h = hashlib.sha256()
    for rel in ("CMakeLists.txt", "config.h.in", "src/CMakeLists.txt"):
        p = os.path.join(repo, rel)
        h.update(rel.encode())
        try:
            with open(p, "rb") as f:
                h.update(f.read())
        except OSError:
            h.update(b"<missing>")
    h.update(run([CLANG, "--version"]).stdout.encode())
    return h.hexdigest()[:24]


def configure(repo=None):
    """Return {'config_h': text, 'units': [{'file': rel, 'flags': [...]}]} for
    the tinyjambu_static target, from a throw-away cmake configure."""
    repo = repo or REPO
    key = _cmake_inputs_hash(repo)
    cdir = os.path.join(VERIF, ".cache")
    cfile = os.path.join(cdir, "configure-%s.json" % key)
    if os.path.exists(cfile) and not os.environ.get("TJ_NO_CACHE"):
        try:
            with open(cfile) as f:
                return json.load(f)
        except Exception:
            pass
    b = scratch("tjv-cfg-")
    p = run(["cmake", "-G", "Ninja", "-S", repo, "-B", b, "-DMINIMAL=ON",
             "-DCMAKE_EXPORT_COMPILE_COMMANDS=ON", "-DCMAKE_C_COMPILER=" + CLANG,
             "-DCMAKE_ASM_COMPILER=" + CLANG])
    if p.returncode != 0:
        raise Broken("cmake configure failed: " + p.stderr[-2000:])
    try:
        with open(os.path.join(b, "compile_commands.json")) as f:
            db = json.load(f)
        with open(os.path.join(b, "config.h")) as f:
            config_h = f.read()
    except OSError as e:
        raise Broken("cmake produced no compile database / config.h: %s" % e)
    units, seen = [], set()
    for e in db:
        out = e.get("output", "")
        if "tinyjambu_static.dir" not in out:
            continue
        rel = os.path.relpath(e["file"], repo)
        if rel in seen:
            continue
        seen.add(rel)
        args = shlex.split(e["command"])
        flags = []
        skip = False
        for a in args[1:]:
            if skip:
                skip = False
                continue
            if a in ("-o", "-c"):
                skip = (a == "-o")
                continue
            if a == e["file"]:
                continue
            if a.startswith("-I"):
                continue
            flags.append(a)
        units.append({"file": rel, "flags": flags})
    res = {"config_h": config_h, "units": units, "key": key}
    shutil.rmtree(b, ignore_errors=True)
    try:
        os.makedirs(cdir, exist_ok=True)
        tmp = cfile + ".%d" % os.getpid()
        with open(tmp, "w") as f:
            json.dump(res, f)
        os.replace(tmp, cfile)
    except OSError:
        pass
    return res


# ---------------------------------------------------------------------------
# configuration variants (shadow config.h + target macros)

def _cfg_without(config_h, names, add=()):
    out = []
    for line in config_h.splitlines():
        parts = line.split()
        if len(parts) >= 2 and parts[0] == "#define" and parts[1] in names:
            out.append("/* #undef %s */" % parts[1])
        else:
            out.append(line)
    for a in add:
        out.append("#define %s" % a)
    return "\n".join(out) + "\n"


VARIANTS = {
    # id: (config.h transformer, extra flags, restrict-to-files or None)
    "H": (lambda c: c, [], None),
    "T-getentropy": (lambda c: _cfg_without(c, {"HAVE_GETRANDOM"}, ["HAVE_GETENTROPY"] if "HAVE_GETENTROPY" not in c else []),
                     [], ["src/random/tinyjambu-trng-dev-random.c", "src/tinyjambu-prng.c"]),
    "T-syscall": (lambda c: _cfg_without(c, {"HAVE_GETRANDOM", "HAVE_GETENTROPY"}),
                  [], ["src/random/tinyjambu-trng-dev-random.c", "src/tinyjambu-prng.c"]),
    "T-urandom": (lambda c: _cfg_without(c, {"HAVE_GETRANDOM", "HAVE_GETENTROPY", "HAVE_SYS_SYSCALL_H"}),
                  ["-U__linux__", "-D__unix__"], ["src/random/tinyjambu-trng-dev-random.c", "src/tinyjambu-prng.c"]),
    "T-none": (lambda c: c, ["-U__linux__", "-U__unix__", "-U__unix", "-Uunix", "-Ulinux", "-U__APPLE__"],
               ["src/random/tinyjambu-trng-none.c", "src/tinyjambu-prng.c"]),
    "Z-volatile": (lambda c: _cfg_without(c, {"HAVE_EXPLICIT_BZERO", "HAVE_MEMSET_S"}),
                   [], ["src/backend/tinyjambu-clean.c"]),
}

FORMS = {
    # N0: source-shaped SSA
    "N0": ["-O0", "-Xclang", "-disable-O0-optnone", "-g", "-fno-discard-value-names"],
    # R3: the project's release flags as they are (-O3 comes from cmake)
    "R3": ["-g", "-fno-discard-value-names"],
}


class Build:
    """One scratch build of the library's C units for (variant, form)."""

    def __init__(self, repo=None, extra_n0=()):
        self.repo = repo or REPO
        self.cfg = configure(self.repo)
        self.dir = scratch("tjv-bld-")
        self._facts = {}
        self.extra_n0 = list(extra_n0)      # extra preprocessor flags for the source-shaped form (the optimised build's predefined macros)

    def c_units(self):
        return [u for u in self.cfg["units"] if u["file"].endswith(".c")]

    def asm_units(self):
        return [u for u in self.cfg["units"] if u["file"].endswith(".S")]

    def variant_dir(self, variant):
        d = os.path.join(self.dir, "cfg-" + variant)
        if not os.path.isdir(d):
            os.makedirs(d)
            tr = VARIANTS[variant][0]
            with open(os.path.join(d, "config.h"), "w") as f:
                f.write(tr(self.cfg["config_h"]))
        return d

    def compile_flags(self, unit, variant, form):
        vdir = self.variant_dir(variant)
        flags = [a for a in unit["flags"]]
        if form == "N0":
            flags = [a for a in flags if not a.startswith("-O")]
        flags = ["-I" + os.path.join(self.repo, "src"), "-I" + vdir] + flags + FORMS[form] + VARIANTS[variant][1]
        if form == "N0":
            flags = flags + self.extra_n0
        return flags

    def bitcode(self, variant="H", form="N0"):
        """Compile + link; returns path of linked .bc and the list of TUs."""
        tag = "%s-%s" % (variant, form)
        outdir = os.path.join(self.dir, tag)
        linked = os.path.join(outdir, "lib.bc")
        if os.path.exists(linked):
            return linked
        os.makedirs(outdir, exist_ok=True)
        only = VARIANTS[variant][2]
        units = [u for u in self.c_units() if only is None or u["file"] in only]
        if not units:
            raise Broken("no C units for variant %s" % variant)
        self.variant_dir(variant)

        def one(u):
            src = os.path.join(self.repo, u["file"])
            out = os.path.join(outdir, u["file"].replace("/", "_") + ".bc")
            cmd = [CLANG] + self.compile_flags(u, variant, form) + ["-w", "-emit-llvm", "-c", src, "-o", out]
            p = run(cmd)
            if p.returncode != 0:
                raise Broken("compile failed (%s, %s): %s\n%s" % (u["file"], tag, " ".join(cmd), p.stderr[-1500:]))
            return out

        with ThreadPoolExecutor(max_workers=16) as ex:
            outs = list(ex.map(one, units))
        p = run([LLVM_LINK] + outs + ["-o", linked])
        if p.returncode != 0:
            raise Broken("llvm-link failed (%s): %s" % (tag, p.stderr[-1500:]))
        self._tus = [u["file"] for u in units]
        return linked

    def facts(self, variant="H", form="N0", inline=True):
        """Facts JSON (dict) for a linked module."""
        key = (variant, form, inline)
        if key in self._facts:
            return self._facts[key]
        bc = self.bitcode(variant, form)
        out = bc[:-3] + (".inl" if inline else ".raw") + ".json"
        cmd = [TJFACTS]
        if form == "N0":
            cmd.append("--normalise")
            if inline:
                cmd.append("--inline-internal")
        cmd += [bc, "-o", out]
        if not os.path.exists(TJFACTS):
            raise Broken("bin/tjfacts missing: run ./setup.sh")
        p = run(cmd)
        if p.returncode != 0:
            raise Broken("tjfacts failed: %s" % p.stderr[-1500:])
        with open(out) as f:
            d = json.load(f)
        only = VARIANTS[variant][2]
        d["_tus"] = [u["file"] for u in self.c_units() if only is None or u["file"] in only]
        d["_variant"] = variant
        d["_form"] = form
        self._facts[key] = d
        return d

    def fixture_facts(self, path, form="N0", extra=()):
        """Compile a positive-control fixture through the same pipeline."""
        outdir = os.path.join(self.dir, "fixtures")
        os.makedirs(outdir, exist_ok=True)
        base = os.path.basename(path)
        bc = os.path.join(outdir, base + "." + form + ".bc")
        # fixtures are self-tests of the rules, not part of the analysed program: they are compiled against a frozen copy of the library's
        # headers (fixtures/include, taken from the pinned tree) so that a change of a prototype or type in /repo cannot make a control uncompilable
        finc = os.path.join(os.path.dirname(os.path.abspath(path)), "include")
        flags = ["-I" + finc, "-DHAVE_CONFIG_H", "-std=gnu99"]
        flags += (["-O3"] if form == "R3" else []) + FORMS[form] + list(extra)
        p = run([CLANG] + flags + ["-w", "-emit-llvm", "-c", path, "-o", bc])
        if p.returncode != 0:
            raise Broken("fixture %s does not compile: %s" % (base, p.stderr[-1000:]))
        out = bc + ".json"
        cmd = [TJFACTS] + (["--normalise", "--inline-internal"] if form == "N0" else []) + [bc, "-o", out]
        p = run(cmd)
        if p.returncode != 0:
            raise Broken("tjfacts failed on fixture %s: %s" % (base, p.stderr[-1000:]))
        with open(out) as f:
            d = json.load(f)
        d["_tus"] = [base]
        d["_variant"] = "fixture"
        d["_form"] = form
        return d


OPTLEVEL_MACROS = ("__OPTIMIZE__", "__OPTIMIZE_SIZE__", "__NO_INLINE__", "__FAST_MATH__")


def optlevel_conditionals(repo=None):
    """preprocessor conditionals of the library sources that test a macro the compiler predefines from the optimisation level: the
    source-shaped form is compiled without optimisation, the shipped objects with -O3, so such a conditional selects different code"""
    import re
    repo = repo or REPO
    rx = re.compile(r"^\s*#\s*(if|ifdef|ifndef|elif)\b.*\b(%s)\b" % "|".join(OPTLEVEL_MACROS))
    hits = []
    for root, _d, files in os.walk(os.path.join(repo, "src")):
        for fn in sorted(files):
            if fn.endswith((".c", ".h")):
                p = os.path.join(root, fn)
                try:
                    for i, line in enumerate(open(p, errors="replace"), 1):
                        if rx.search(line):
                            hits.append("%s:%d" % (os.path.relpath(p, repo), i))
                except OSError:
                    pass
    return hits
