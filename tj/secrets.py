"""Secret / public classification of every external function's parameters (DESIGN 4: api table).
Source: doc comments of TinyJAMBU.h and tinyjambu-aead-common.h, and the text of C07:
secrets = keys, passwords, plaintexts, computed tags, HMAC/HKDF key material, PRNG state (V, C) and entropy,
hash input and hash state words.  Public = lengths, counts, nonces, associated data, ciphertext, salt, info,
personalisation strings, buffer positions, counters, limits, domain/round constants."""
import re
from .build import Broken

# (function regex, {param: spec}); spec: "secret" | "public" | ("fields", composite, [field names that are secret])
HASHP = ("fields", "tinyjambu_hash_state_p_t", ["state"])
TABLE = [
    (r"tinyjambu_(128|192|256)_(aead|siv)_encrypt", {"c": "public", "clen": "public", "m": "secret", "mlen": "public", "ad": "public", "adlen": "public", "npub": "public", "k": "secret"}),
    (r"tinyjambu_(128|192|256)_(aead|siv)_decrypt", {"m": "public", "mlen": "public", "c": "public", "clen": "public", "ad": "public", "adlen": "public", "npub": "public", "k": "secret"}),
    (r"tinyjambu_hash$", {"out": "public", "in": "secret", "inlen": "public"}),
    (r"tinyjambu_hash_(init|reinit|free)$", {"state": HASHP}),
    (r"tinyjambu_hash_update$", {"state": HASHP, "in": "secret", "inlen": "public"}),
    (r"tinyjambu_hash_finalize$", {"state": HASHP, "out": "public"}),
    (r"tinyjambu_hmac$", {"out": "public", "key": "secret", "keylen": "public", "in": "secret", "inlen": "public"}),
    (r"tinyjambu_hmac_(init|reinit)$", {"state": HASHP, "key": "secret", "keylen": "public"}),
    (r"tinyjambu_hmac_free$", {"state": HASHP}),
    (r"tinyjambu_hmac_update$", {"state": HASHP, "in": "secret", "inlen": "public"}),
    (r"tinyjambu_hmac_finalize$", {"state": HASHP, "key": "secret", "keylen": "public", "out": "public"}),
    (r"tinyjambu_hkdf$", {"out": "public", "outlen": "public", "key": "secret", "keylen": "public", "salt": "public", "saltlen": "public", "info": "public", "infolen": "public"}),
    (r"tinyjambu_hkdf_extract$", {"state": ("fields", "tinyjambu_hkdf_state_p_t", ["prk", "out"]), "key": "secret", "keylen": "public", "salt": "public", "saltlen": "public"}),
    (r"tinyjambu_hkdf_expand$", {"state": ("fields", "tinyjambu_hkdf_state_p_t", ["prk", "out"]), "info": "public", "infolen": "public", "out": "public", "outlen": "public"}),
    (r"tinyjambu_hkdf_free$", {"state": ("fields", "tinyjambu_hkdf_state_p_t", ["prk", "out"])}),
    (r"tinyjambu_pbkdf2$", {"out": "public", "outlen": "public", "password": "secret", "passwordlen": "public", "salt": "public", "saltlen": "public", "count": "public"}),
    (r"tinyjambu_prng_init$", {"state": ("fields", "tinyjambu_prng_state_p_t", ["V", "C"]), "custom": "public", "custom_len": "public"}),
    (r"tinyjambu_prng_init_user$", {"state": ("fields", "tinyjambu_prng_state_p_t", ["V", "C"]), "callback": "public", "user_data": "public", "custom": "public", "custom_len": "public"}),
    (r"tinyjambu_prng_(free|reseed)$", {"state": ("fields", "tinyjambu_prng_state_p_t", ["V", "C"])}),
    (r"tinyjambu_prng_generate$", {"state": ("fields", "tinyjambu_prng_state_p_t", ["V", "C"]), "data": "public", "size": "public"}),
    (r"tinyjambu_prng_feed$", {"state": ("fields", "tinyjambu_prng_state_p_t", ["V", "C"]), "data": "secret", "size": "public"}),
    (r"tinyjambu_prng_set_reseed_limit$", {"state": ("fields", "tinyjambu_prng_state_p_t", ["V", "C"]), "limit": "public"}),
    # internal entry points (tinyjambu-aead-common.h, tinyjambu-backend.h, tinyjambu-util.h)
    (r"tinyjambu_setup_(128|192|256)$", {"state": "secret", "nonce": "public", "domain": "public"}),
    (r"tinyjambu_absorb_(128|192|256)$", {"state": "secret", "data": "secret", "size": "public", "domain": "public", "rounds": "public"}),
    (r"tinyjambu_generate_tag_(128|192|256)$", {"state": "secret", "tag": "public"}),
    (r"tinyjambu_permutation_(128|192|256)$", {"state": "secret", "rounds": "public"}),
    (r"tinyjambu_aead_check_tag$", {"plaintext": "secret", "plaintext_len": "public", "tag1": "secret", "tag2": "public", "size": "public"}),
    (r"tinyjambu_clean$", {"buf": "secret", "size": "public"}),
    (r"tinyjambu_trng_generate$", {"out": "secret"}),
    (r"tinyjambu_trng_get_bytes$", {"out": "secret", "outlen": "public"}),
    (r"tinyjambu_trng_get_bytes_is_good$", {}),
]


def sources(mod):
    """list of (function, param, lo, hi|None, label) for dep.Dep; raises Broken if an external
    function or one of its parameters is not classified."""
    out = []
    nfn = 0
    for f in mod.fns.values():
        if f.internal:
            continue
        spec = None
        for rx, sp in TABLE:
            if re.match(rx, f.name):
                spec = sp
                break
        if spec is None:
            raise Broken("external function %s is not classified in the secret/public table (tj/secrets.py): new API?" % f.name)
        nfn += 1
        for p in f.params:
            nm = p["name"]
            if nm not in spec:
                raise Broken("parameter '%s' of %s is not classified in the secret/public table" % (nm, f.name))
            s = spec[nm]
            if s == "public":
                continue
            if not p["ty"].endswith("*"):
                raise Broken("parameter '%s' of %s is marked secret but is not a pointer" % (nm, f.name))
            if s == "secret":
                out.append((f.name, nm, 0, None, "SECRET:%s.%s" % (f.name, nm)))
            else:
                _, comp, fields = s
                c = mod.composites.get(comp)
                if c is None:
                    # partial module (variant builds) may lack the private type
                    raise Broken("composite %s not in DWARF" % comp)
                for m in c["members"]:
                    if m["name"] in fields:
                        out.append((f.name, nm, m["offset"], m["offset"] + m["size"], "SECRET:%s.%s->%s" % (f.name, nm, m["name"])))
    return out, nfn
