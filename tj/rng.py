"""D-RNG: interval and known-bits abstract evaluation of SSA integer values.

Intervals are unsigned [lo, hi] over the value's bit width.  Known bits are
(zeros mask, ones mask).  Both are computed by a forward fixpoint over a
function (optimistic phis for known-bits; intervals are used path-wise)."""
from .build import Broken
from .facts import const_val


def mask(b):
    return (1 << b) - 1


class Iv:
    __slots__ = ("lo", "hi", "bits")

    def __init__(self, lo, hi, bits):
        self.lo, self.hi, self.bits = lo, hi, bits

    def __repr__(self):
        return "[%d,%d]:i%d" % (self.lo, self.hi, self.bits)

    def const(self):
        return self.lo if self.lo == self.hi else None

    @staticmethod
    def top(bits):
        return Iv(0, mask(bits), bits)


def iv_binop(op, a, b, bits):
    m = mask(bits)
    if op == "add":
        if a.hi + b.hi <= m:
            return Iv(a.lo + b.lo, a.hi + b.hi, bits)
        if a.lo + b.lo > m:  # always wraps exactly once
            return Iv((a.lo + b.lo) & m, (a.hi + b.hi) & m, bits) if a.hi + b.hi <= 2 * m + 1 else Iv.top(bits)
        return Iv.top(bits)
    if op == "sub":
        if a.lo >= b.hi:
            return Iv(a.lo - b.hi, a.hi - b.lo, bits)
        return Iv.top(bits)
    if op == "mul":
        if a.hi * b.hi <= m:
            return Iv(a.lo * b.lo, a.hi * b.hi, bits)
        return Iv.top(bits)
    if op == "udiv":
        if b.lo > 0:
            return Iv(a.lo // b.hi, a.hi // b.lo, bits)
        return Iv.top(bits)
    if op == "urem":
        if b.lo > 0 and a.lo == a.hi and b.lo == b.hi:
            return Iv(a.lo % b.lo, a.lo % b.lo, bits)
        if b.lo > 0:
            return Iv(0, min(a.hi, b.hi - 1), bits)
        return Iv.top(bits)
    if op == "lshr":
        if b.const() is not None and b.lo < bits:
            return Iv(a.lo >> b.lo, a.hi >> b.lo, bits)
        return Iv(0, a.hi, bits)
    if op == "shl":
        if b.const() is not None and b.lo < bits and (a.hi << b.lo) <= m:
            return Iv(a.lo << b.lo, a.hi << b.lo, bits)
        return Iv.top(bits)
    if op == "and":
        return Iv(0, min(a.hi, b.hi), bits)
    if op == "or" or op == "xor":
        h = max(a.hi, b.hi)
        return Iv(0 if op == "xor" else max(a.lo, b.lo), mask(max(h.bit_length(), 0)) if h else 0, bits)
    return Iv.top(bits)


def iv_icmp(pred, a, b):
    """True / False / None on unsigned intervals (signed preds only when both
    intervals are in the non-negative half)"""
    bits = a.bits
    half = 1 << (bits - 1)
    if pred in ("slt", "sle", "sgt", "sge"):
        if a.hi < half and b.hi < half:
            pred = "u" + pred[1:]
        elif a.lo >= half and b.lo >= half:
            pred = "u" + pred[1:]
        elif a.lo >= half and b.hi < half:  # a negative, b non-negative
            return pred in ("slt", "sle")
        elif a.hi < half and b.lo >= half:
            return pred in ("sgt", "sge")
        else:
            return None
    if pred == "eq":
        if a.const() is not None and a.const() == b.const():
            return True
        if a.hi < b.lo or b.hi < a.lo:
            return False
        return None
    if pred == "ne":
        r = iv_icmp("eq", a, b)
        return None if r is None else (not r)
    if pred == "ult":
        if a.hi < b.lo:
            return True
        if a.lo >= b.hi:
            return False
        return None
    if pred == "ule":
        if a.hi <= b.lo:
            return True
        if a.lo > b.hi:
            return False
        return None
    if pred == "ugt":
        return iv_icmp("ult", b, a)
    if pred == "uge":
        return iv_icmp("ule", b, a)
    return None


def explore_intervals(f, start_env, on_store=None, max_states=5000):
    """Path-wise interval execution from function entry.  start_env: valref -> Iv.
    Branches whose condition the intervals decide are followed on one side, others fork.
    Calls on_store(inst, env, getiv) for every store.  Loops are cut at the first
    revisit of a block on the same path (values inside loops are not used by callers of this)."""
    out = []
    stack = [(0, dict(start_env), None, frozenset())]
    n = 0
    while stack:
        b, env, pred, visited = stack.pop()
        n += 1
        if n > max_states:
            raise Broken("interval exploration of %s exceeds its bound: not decided" % f.name)

        def getiv(v, bits=None):
            if v[0] == "c":
                return Iv(int(v[1]), int(v[1]), v[2])
            if v[0] == "n":
                return Iv(0, 0, 64)
            if v in env:
                e_ = env[v]
                if isinstance(e_, bool) or e_ is None:
                    # the result of a comparison used as a number (zext of (x % 32 != 0)): 0 or 1
                    return Iv(int(e_), int(e_), bits or 1) if isinstance(e_, bool) else Iv(0, 1, bits or 1)
                return e_
            I = f.inst(v)
            bb = bits or (I.bits if I is not None and I.bits else None)
            if bb is None and v[0] == "a":
                ty = f.params[v[1]]["ty"]
                bb = int(ty[1:]) if ty[1:].isdigit() else 64
            return Iv.top(bb or 64)

        for iid in f.blocks[b].insts:
            I = f.insts[iid]
            k = ("i", iid)
            if I.op == "phi":
                if pred is not None:
                    for v, pb in I.get("inc"):
                        if pb == pred:
                            env[k] = getiv(tuple(v), I.bits)
                continue
            if I.is_dbg() or I.is_lifetime():
                continue
            if I.op in ("add", "sub", "mul", "udiv", "urem", "lshr", "shl", "and", "or", "xor"):
                env[k] = iv_binop(I.op, getiv(I.ops[0], I.bits), getiv(I.ops[1], I.bits), I.bits)
            elif I.op == "zext":
                a = getiv(I.ops[0], I.get("src_bits"))
                env[k] = Iv(a.lo, a.hi, I.bits)
            elif I.op == "sext":
                a = getiv(I.ops[0], I.get("src_bits"))
                sb = I.get("src_bits") or a.bits or 64
                env[k] = Iv(a.lo, a.hi, I.bits) if a.hi < (1 << (sb - 1)) else Iv.top(I.bits)
            elif I.op == "trunc":
                a = getiv(I.ops[0], I.get("src_bits"))
                env[k] = Iv(a.lo, a.hi, I.bits) if a.hi <= mask(I.bits) else Iv.top(I.bits)
            elif I.op == "select":
                c = env.get(I.ops[0])
                if isinstance(c, bool):
                    env[k] = getiv(I.ops[1] if c else I.ops[2], I.bits)
                else:
                    a, bb = getiv(I.ops[1], I.bits), getiv(I.ops[2], I.bits)
                    env[k] = Iv(min(a.lo, bb.lo), max(a.hi, bb.hi), I.bits or a.bits)
            elif I.op == "icmp":
                a = getiv(I.ops[0])
                bb = getiv(I.ops[1], a.bits)
                a = getiv(I.ops[0], bb.bits)
                env[k] = iv_icmp(I.get("pred"), a, bb)
            elif I.op == "store" and on_store:
                on_store(I, env, getiv)
            elif I.op == "ret":
                out.append((I, env))
        t = f.term(b)
        succs = []
        if t.op == "br":
            if t.get("cond"):
                c = t.ops[0]
                cv = (int(c[1]) != 0) if c[0] == "c" else env.get(c)
                s = t.get("succ")
                if isinstance(cv, bool):
                    succs = [s[0]] if cv else [s[1]]
                else:
                    succs = list(s)
            else:
                succs = list(t.get("succ"))
        elif t.op == "ret":
            continue
        else:
            succs = list(f.blocks[b].succs)
        for s in succs:
            if (b, s) in visited:
                continue
            e2 = dict(env)
            if t.op == "br" and t.get("cond") and len(succs) == 2 and t.ops[0][0] == "i":
                # a forked comparison with a constant narrows the compared value on either side
                C = f.inst(t.ops[0])
                sl = t.get("succ")
                if C is not None and C.op == "icmp" and sl[0] != sl[1]:
                    _refine(e2, C, s == sl[0], getiv)
            stack.append((s, e2, b, visited | {(b, s)}))
    return out


def _refine(env, C, truth, getiv):
    pred = C.get("pred")
    x, y = tuple(C.ops[0]), tuple(C.ops[1])
    a = getiv(x)
    bb = getiv(y, a.bits)
    a = getiv(x, bb.bits)
    swap = {"ult": "ugt", "ugt": "ult", "ule": "uge", "uge": "ule", "eq": "eq", "ne": "ne"}
    neg = {"ult": "uge", "uge": "ult", "ugt": "ule", "ule": "ugt", "eq": "ne", "ne": "eq"}
    if pred not in swap:
        return
    for (v, iv, other, p) in ((x, a, bb, pred), (y, bb, a, swap[pred])):
        if v[0] not in ("i", "a") or other.lo != other.hi:
            continue
        k = other.lo
        q = p if truth else neg[p]
        lo, hi = iv.lo, iv.hi
        if q == "ult":
            hi = min(hi, k - 1)
        elif q == "ule":
            hi = min(hi, k)
        elif q == "ugt":
            lo = max(lo, k + 1)
        elif q == "uge":
            lo = max(lo, k)
        elif q == "eq":
            lo, hi = max(lo, k), min(hi, k)
        elif q == "ne":
            if lo == k:
                lo += 1
            if hi == k:
                hi -= 1
        if lo <= hi:
            env[v] = Iv(lo, hi, iv.bits)


# ---------------------------------------------------------------------------
# known bits

class KB:
    __slots__ = ("z", "o", "bits")

    def __init__(self, z, o, bits):
        self.z, self.o, self.bits = z, o, bits

    def __eq__(self, other):
        return (self.z, self.o, self.bits) == (other.z, other.o, other.bits)

    def __repr__(self):
        return "KB(z=%x,o=%x,i%d)" % (self.z, self.o, self.bits)

    @staticmethod
    def const(v, bits):
        v &= mask(bits)
        return KB(mask(bits) & ~v, v, bits)

    @staticmethod
    def top(bits):
        return KB(0, 0, bits)

    def umax(self):
        return mask(self.bits) & ~self.z

    def umin(self):
        return self.o


def known_bits(f):
    """optimistic fixpoint of known bits for every integer SSA value of f"""
    kb = {}

    def get(v, bits):
        if v[0] == "c":
            return KB.const(int(v[1]), v[2])
        if v[0] == "n":
            return KB.const(0, bits or 64)
        if v in kb:
            return kb[v]
        if v[0] == "i":
            return None  # bottom (not yet computed) for optimistic phis
        return KB.top(bits or 64)

    changed = True
    rounds = 0
    while changed:
        changed = False
        rounds += 1
        if rounds > 64:
            break
        for I in f.insts:
            bits = I.bits
            if not bits:
                continue
            k = ("i", I.id)
            ops = I.ops
            r = None
            if I.op == "phi":
                acc = None
                for v, pb in I.get("inc"):
                    x = get(tuple(v), bits)
                    if x is None:
                        continue
                    acc = x if acc is None else KB(acc.z & x.z, acc.o & x.o, bits)
                r = acc
            elif I.op in ("and", "or", "xor"):
                a, b = get(ops[0], bits), get(ops[1], bits)
                if a is None or b is None:
                    continue
                if I.op == "and":
                    r = KB(a.z | b.z, a.o & b.o, bits)
                elif I.op == "or":
                    r = KB(a.z & b.z, a.o | b.o, bits)
                else:
                    r = KB((a.z & b.z) | (a.o & b.o), (a.z & b.o) | (a.o & b.z), bits)
            elif I.op == "zext":
                a = get(ops[0], I.get("src_bits"))
                if a is None:
                    continue
                sb = I.get("src_bits")
                r = KB(a.z | (mask(bits) & ~mask(sb)), a.o, bits)
            elif I.op == "trunc":
                a = get(ops[0], I.get("src_bits"))
                if a is None:
                    continue
                r = KB(a.z & mask(bits), a.o & mask(bits), bits)
            elif I.op in ("shl", "lshr") and ops[1][0] == "c":
                a = get(ops[0], bits)
                if a is None:
                    continue
                s = int(ops[1][1])
                if s >= bits:
                    r = KB.top(bits)
                elif I.op == "shl":
                    r = KB(((a.z << s) | mask(s)) & mask(bits), (a.o << s) & mask(bits), bits)
                else:
                    r = KB((a.z >> s) | (mask(bits) & ~mask(bits - s)), a.o >> s, bits)
            elif I.op == "add" or I.op == "sub":
                a, b = get(ops[0], bits), get(ops[1], bits)
                if a is None or b is None:
                    continue
                # only upper-bound reasoning: if both have known leading zeros, so does the sum (+1 bit)
                if I.op == "add":
                    hi = a.umax() + b.umax()
                    if hi <= mask(bits):
                        n = hi.bit_length()
                        r = KB(mask(bits) & ~mask(n), 0, bits)
                        if a.z == mask(bits) & ~a.o and b.z == mask(bits) & ~b.o:
                            r = KB.const(a.o + b.o, bits)
                    else:
                        r = KB.top(bits)
                else:
                    if a.z == mask(bits) & ~a.o and b.z == mask(bits) & ~b.o:
                        r = KB.const(a.o - b.o, bits)
                    else:
                        r = KB.top(bits)
            elif I.op == "load":
                r = KB.top(bits)
            elif I.op == "select":
                a, b = get(ops[1], bits), get(ops[2], bits)
                if a is None or b is None:
                    continue
                r = KB(a.z & b.z, a.o & b.o, bits)
            else:
                r = KB.top(bits)
            if r is None:
                continue
            if k not in kb or not (kb[k] == r):
                # monotone: only lose information
                if k in kb:
                    r = KB(kb[k].z & r.z, kb[k].o & r.o, bits)
                    if kb[k] == r:
                        continue
                kb[k] = r
                changed = True
    return kb
