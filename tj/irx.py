"""IR symbolic evaluation of one function in the D-GF2 term domain (DESIGN B.3 'segments').

Values:
  Word  : list of gf2 bits (data)
  Lf    : linear form {symbol: coeff, 1: const} (pointers, lengths, counters)
Memory : byte cells keyed by (object symbol, constant offset); object symbols are
         ("arg", i), ("alloca", id) or a loop-head cursor ("hd", phi id).
Calls  : uninterpreted events with symbolic results (permutation / setup / absorb /
         generate_tag / check_tag / hash functions ...) supplied by a handler table.
Control: every branch whose condition is not decided forks; a path ends at a return, at the
         first entry of a loop header (prefix path) or when it takes a back edge.  A fresh path
         then starts at each loop header with the loop-carried phis and the memory named by
         `havoc` replaced by fresh symbols: the iteration evaluated is the generic one.
No loop is unrolled, no solver is used, nothing is executed.
"""
from .build import Broken
from . import gf2, ir
from .facts import const_val


class Lf(dict):
    """linear form over symbols; key 1 holds the constant"""

    @staticmethod
    def c(k):
        return Lf({1: k}) if k else Lf()

    @staticmethod
    def s(sym):
        return Lf({sym: 1})

    def add(self, o, k=1):
        r = Lf(self)
        for s, c in o.items():
            v = r.get(s, 0) + k * c
            if v:
                r[s] = v
            else:
                r.pop(s, None)
        return r

    def const(self):
        if not self:
            return 0
        if len(self) == 1 and 1 in self:
            return self[1]
        return None

    def base(self):
        """(object symbol, offset Lf) if this is a pointer into a known object"""
        objs = [s for s in self if isinstance(s, tuple) and s[0] in ("arg", "alloca", "hdp", "glob")]
        if len(objs) != 1 or self[objs[0]] != 1:
            return None, None
        off = Lf(self)
        del off[objs[0]]
        return objs[0], off

    def __hash__(self):
        return hash(tuple(sorted(self.items(), key=repr)))

    def __repr__(self):
        if not self:
            return "0"
        out = []
        for s, c in sorted(self.items(), key=lambda kv: repr(kv[0])):
            if s == 1:
                out.append(str(c))
            else:
                out.append(("%d*" % c if c != 1 else "") + _sn(s))
        return "+".join(out)


def _sn(s):
    if isinstance(s, tuple):
        return ":".join(str(x) for x in s)
    return str(s)


def symsplit(off):
    """canonical name of a symbolic offset: (repr of its non-constant part, its constant part) - independent of how an access is grouped"""
    k0 = off.get(1, 0)
    base = Lf({s_: c for s_, c in off.items() if s_ != 1})
    return repr(base), k0


def is_word(v):
    return isinstance(v, list)


class PathState:
    def __init__(self):
        self.env = {}        # valref -> value
        self.mem = {}        # (obj, off) -> 8-bit word
        self.events = []     # ("call", name, args...), ("out", obj, off, byte), ("cond", ...)
        self.conds = []      # (pred, Lf, truth)
        self.end = None
        self.blocks = []
        self.ncall = 0
        self.eqs = {}        # symbol -> constant, from path conditions
        self.lfmem = {}      # (obj, off, nbytes) -> Lf stored there
        self.divs = {}       # (repr(x), c) -> (quotient symbol, remainder symbol, x, c)
        self.start_mem = {}
        self.start_lfmem = {}
        self.objgen = {}     # obj -> generation (bumped when a loop head havocs the whole object)
        self.resume = None   # (block, instruction position) when a path was forked in the middle of a block
        self.mods = {}       # (width, repr) -> linear form whose truncation the symbol ("mod", width, repr) stands for

    def clone(self):
        p = PathState()
        p.lfmem = dict(self.lfmem)
        p.divs = dict(self.divs)
        p.objgen = dict(self.objgen)
        p.mods = dict(self.mods)
        p.start_mem = self.start_mem
        p.start_lfmem = self.start_lfmem
        p.env = dict(self.env)
        p.mem = dict(self.mem)
        p.events = list(self.events)
        p.conds = list(self.conds)
        p.blocks = list(self.blocks)
        p.ncall = self.ncall
        p.eqs = dict(self.eqs)
        p.origin = getattr(self, "origin", None)
        p.cut = getattr(self, "cut", False)
        p.peeled = getattr(self, "peeled", frozenset())
        return p


class Exec:
    def __init__(self, f, call_handler, havoc=None, word_args=(), unroll=False, arg_consts=None, int_cells=None, auto=False,
                 split_max=8, starts=None, pre_conds=(), callee_writes=None, word_phis=None, fresh_per_entry=False, exit_eq=None, unrotate=False,
                 head_consts=None, congr=None, cell_alias=None, peel=(), endptr=False):
        """call_handler(ex, path, inst, callee, argvalues) -> result value or None
        havoc(ex, path, header) is called when a fresh iteration starts at a loop header"""
        self.f = f
        self.call_handler = call_handler
        self.havoc = havoc
        self.paths = []
        self.heads = {l["header"]: l for l in f.loops}
        self.head_entry = {}
        self.nsym = 0
        self.word_args = set(word_args)
        self.unroll = unroll
        self.arg_consts = dict(arg_consts or {})
        self.endptr = endptr            # loops driven by a cursor and an END POINTER (no remaining-length phi): the distance end - cursor is given a symbol of its own at the head
        self.vrem = {}                  # head -> (virtual phi id, cursor phi id, valref of the end pointer)
        self.peel = set(peel or ())      # loop heads whose first iteration belongs to the entry path (helper values that are special in the first round only)
        self.cell_alias = dict(cell_alias or {})   # integer cell (obj, off, n) -> cell whose unknown head value it shares (an inferred invariant: both hold the same value at every loop entry and back edge)
        self.int_cells = int_cells      # predicate (obj, off, nbytes) -> treat the cell as an integer (linear form), not as data bits
        self.auto = auto                # loops whose header test is decided are followed; others get one generic iteration
        self.split_max = split_max
        self.starts = starts            # list of (label, setup(path)) initial classes
        self.pre_conds = list(pre_conds)
        self.word_phis = word_phis          # predicate(phi inst, init value) -> loop-carried value is data (bit word), not a length
        self.fresh_per_entry = fresh_per_entry
        self.exit_eq = exit_eq or {}      # header block -> (phi inst id, Lf): value of that induction variable when the loop is left through its header test
        self.callee_writes = callee_writes or {}   # callee -> {arg index: (offset, nbytes)} it may write (else: whole object)
        self.congr = dict(congr or {})  # ("hd", phi id) -> (Lf E, g): the loop-carried integer stays congruent to E modulo g (it starts at E and moves in steps of g)
        self.symbits = {}             # integer-cell symbol -> width in bits of the cell it stands for
        self.hdp_origin = {}          # ("hdp", phi id) -> object the loop-carried pointer walks through (from its value on entry)
        self.head_consts = dict(head_consts or {})  # phi id -> concrete value the generic iteration starts with (a loop-carried helper index with a finite orbit)
        # guarded bottom-tested loops ("if (n >= 4) do { ... } while (n >= 4);") summarised as the top-tested loop they are equivalent to:
        # guard block -> description, latch block -> description (see _find_rotated)
        self.rot_guard, self.rot_latch = {}, {}
        if unrotate:
            for L in f.loops:
                r = self._find_rotated(L)
                if r:
                    self.rot_guard[r["G"]] = r
                    self.rot_latch[r["T"]] = r
        self.rot_heads = {r["H"] for r in self.rot_guard.values()}

    def _find_rotated(self, L):
        """L is `G: if (c(init)) { H: do { body } T: while (c(next)); } X:` with the same test c in the guard G and in the latch T, the values merged
        at H being (init from G, next from T) and every value merged at X being such a pair (or loop-invariant).  Then executing the test
        at T on the merged values first and the body after it is the same program.  Returns the description or None (any doubt: None)."""
        f = self.f
        H = L["header"]
        lat = list(L.get("latches", []))
        if len(lat) != 1 or list(L.get("exiting", [])) != lat:
            return None
        T = lat[0]
        tt = f.term(T)
        if tt.op != "br" or not tt.get("cond") or H not in tt.get("succ"):
            return None
        su = tt.get("succ")
        X = su[1] if su[0] == H else su[0]
        if X in L["blocks"] or su[0] == su[1]:
            return None
        t_true_in = su[0] == H
        # the exit edge may pass through blocks that only jump before it meets the path that skipped the loop
        predXT = T
        for _n in range(3):
            blk = f.blocks[X]
            real = [i for i in blk.insts if not (f.insts[i].is_dbg() or f.insts[i].is_lifetime() or f.insts[i].op == "br")]
            t_ = f.term(X)
            if real or t_.op != "br" or t_.get("cond") or len(blk.preds) != 1:
                break
            predXT, X = X, t_.get("succ")[0]

        def strip(v):
            I = f.inst(v)
            while I is not None and I.op in ("zext", "sext", "trunc", "bitcast", "freeze"):
                v = tuple(I.ops[0])
                I = f.inst(v)
            return tuple(v)
        # the latch holds nothing but the test
        for iid in f.blocks[T].insts:
            I = f.insts[iid]
            if I.op in ("icmp", "zext", "sext", "trunc", "br") or I.is_dbg() or I.is_lifetime():
                continue
            return None
        Ct = f.inst(strip(tt.ops[0]))
        if Ct is None or Ct.op != "icmp" or Ct.b != T or Ct.ops[1][0] != "c":
            return None

        def skip_empty_back(b):
            """walk back from b through blocks that only jump"""
            n = 0
            while n < 3:
                blk = f.blocks[b]
                real = [i for i in blk.insts if not (f.insts[i].is_dbg() or f.insts[i].is_lifetime() or f.insts[i].op == "br")]
                t = f.term(b)
                if real or t.op != "br" or t.get("cond") or len(blk.preds) != 1:
                    return b
                b = blk.preds[0]
                n += 1
            return b
        outs = [p_ for p_ in f.blocks[H].preds if p_ not in L["blocks"]]
        if len(outs) != 1:
            return None
        P = outs[0]
        G = skip_empty_back(P) if (f.term(P).op == "br" and not f.term(P).get("cond")) else P
        tg = f.term(G)
        if tg.op != "br" or not tg.get("cond"):
            return None

        def leads(b, target, via):
            """does the edge G->b lead to target through empty jump-only blocks? collects the last block before target"""
            n = 0
            prev = G
            while b != target and n < 3:
                blk = f.blocks[b]
                real = [i for i in blk.insts if not (f.insts[i].is_dbg() or f.insts[i].is_lifetime() or f.insts[i].op == "br")]
                t = f.term(b)
                if real or t.op != "br" or t.get("cond") or len(blk.preds) != 1:
                    return None
                prev, b = b, t.get("succ")[0]
                n += 1
            return prev if b == target else None
        sg = tg.get("succ")
        if sg[0] == sg[1]:
            return None
        pH0, pX1 = leads(sg[0], H, None), leads(sg[1], X, None)
        pH1, pX0 = leads(sg[1], H, None), leads(sg[0], X, None)
        if pH0 is not None and pX1 is not None:
            g_true_in, predH, predX = True, pH0, pX1
        elif pH1 is not None and pX0 is not None:
            g_true_in, predH, predX = False, pH1, pX0
        else:
            return None
        if predH != P or g_true_in != t_true_in:
            return None
        Cg = f.inst(strip(tg.ops[0]))
        if Cg is None or Cg.op != "icmp" or Cg.get("pred") != Ct.get("pred") or Cg.ops[1][0] != "c" or int(Cg.ops[1][1]) != int(Ct.ops[1][1]) or Cg.bits != Ct.bits:
            return None
        # merged values at H: (init, next) pairs
        pairs = {}
        for iid in f.blocks[H].insts:
            I = f.insts[iid]
            if I.op != "phi":
                break
            ini = [tuple(x[0]) for x in I.get("inc") if x[1] == P]
            nxt = [tuple(x[0]) for x in I.get("inc") if x[1] == T]
            if len(ini) != 1 or len(nxt) != 1 or len(I.get("inc")) != 2:
                return None
            pairs[I.id] = (ini[0], nxt[0])
        # the test is on such a pair
        if not any(strip(Cg.ops[0]) == strip(a) and strip(Ct.ops[0]) == strip(b_) for (a, b_) in pairs.values()):
            return None
        # values merged behind the loop: the same pairs (or the same value on both sides); nothing else flows into X
        if sorted(f.blocks[X].preds) != sorted([predX, predXT]):
            return None
        for iid in f.blocks[X].insts:
            I = f.insts[iid]
            if I.op != "phi":
                break
            a = [tuple(x[0]) for x in I.get("inc") if x[1] == predX]
            b_ = [tuple(x[0]) for x in I.get("inc") if x[1] == predXT]
            if len(a) != 1 or len(b_) != 1:
                return None
            if a[0] != b_[0] and not any(a[0] == pa and b_[0] == pb for (pa, pb) in pairs.values()):
                return None
        # values defined in the loop and used behind it other than through these merges would have no counterpart for the skipped loop: SSA
        # makes such a use impossible without a phi at X (X is reached around the loop), so nothing more to check
        return {"G": G, "H": H, "T": T, "X": X, "P": P, "pairs": pairs, "loop": L}

    # -- value helpers ---------------------------------------------------------
    def val(self, p, v):
        k = v[0]
        if k == "c":
            return Lf.c(_sext(int(v[1]), v[2]))
        if k == "n":
            return Lf()
        if k == "a":
            if v[1] in self.arg_consts:
                return Lf.c(self.arg_consts[v[1]])
            if v[1] in self.word_args:
                ty = self.f.params[v[1]]["ty"]
                return gf2.sym_word(("argw", v[1]), int(ty[1:]))
            return p.env.get(v, Lf.s(argsym(self.f, v[1])))
        if k == "i":
            if v in p.env:
                return p.env[v]
            raise Broken("irx: use of unevaluated value %s in %s" % (v, self.f.name))
        if k == "u":
            return [gf2.TOP] * 32
        if k == "f":
            return Lf.s(("fn", v[1]))
        if k == "g":
            return Lf.s(("glob", v[1]))
        if k == "ce":
            ops = v[2]
            if v[1] in ("bitcast", "getelementptr") and ops and ops[0][0] in ("g", "ce") and all(o[0] == "c" and int(o[1]) == 0 for o in ops[1:]):
                return self.val(p, ops[0])
            return [gf2.TOP] * 64
        return Lf.s(("x", repr(v)))

    def word(self, v, w, p=None):
        if p is not None and not is_word(v):
            v = self.subst(p, v)
        if is_word(v):
            if len(v) == w:
                return v
            return (v + [gf2.ZERO] * w)[:w]
        c = v.const()
        if c is not None:
            return gf2.const_word(c & ((1 << w) - 1), w)
        syms = [s_ for s_ in v if s_ != 1]
        if len(syms) == 1 and v[syms[0]] == 1 and isinstance(syms[0], tuple) and syms[0][0] == "hd" and isinstance(syms[0][1], int) and syms[0][1] >= 0:
            # a loop-carried integer used as data (a block number that is also compared with a bound): the same symbolic word a word-valued
            # head phi has, plus the constant part
            I_ = self.f.insts[syms[0][1]]
            bits_ = I_.bits or w
            base = gf2.sym_word(("hdw", syms[0][1]), min(bits_, w)) + [gf2.ZERO] * max(0, w - bits_)
            k0 = v.get(1, 0)
            return base if not k0 else gf2.wadd(base, gf2.const_word(k0 & ((1 << w) - 1), w))[0]
        if len(syms) == 1 and v[syms[0]] == 1 and isinstance(syms[0], tuple) and syms[0][0] in ("fld", "n", "hvi"):
            # an integer cell / parameter used as data: a canonical symbolic word (plus its constant part)
            bits_ = self.symbits.get(syms[0])
            if bits_ is None and syms[0][0] == "n":
                ty_ = self.f.params[syms[0][1]]["ty"] if syms[0][1] < len(self.f.params) else ""
                bits_ = int(ty_[1:]) if ty_.startswith("i") and ty_[1:].isdigit() else None
            if bits_ and bits_ < w:
                # a narrower cell / parameter widened: its upper bits are zero, not free
                base = gf2.sym_word(("lfw", repr(syms[0])), bits_) + [gf2.ZERO] * (w - bits_)
            else:
                base = gf2.sym_word(("lfw", repr(syms[0])), w)
            k0 = v.get(1, 0)
            return base if not k0 else gf2.wadd(base, gf2.const_word(k0 & ((1 << w) - 1), w))[0]
        if len(syms) == 1 and v[syms[0]] == 1 and not v.get(1, 0) and isinstance(syms[0], tuple) and syms[0][0] in ("quo", "rem") and p is not None:
            for (qs, rs, sa, cb) in p.divs.values():
                if syms[0] in (qs, rs) and cb & (cb - 1) == 0:
                    base = self.word(sa, w, p)
                    sh = cb.bit_length() - 1
                    return gf2.wlshr(base, sh) if syms[0] == qs else gf2.wand(base, gf2.const_word(cb - 1, w))
        if len(syms) == 1 and v[syms[0]] == 1 and not v.get(1, 0) and isinstance(syms[0], tuple) and syms[0][0] == "mod" and p is not None:
            src = p.mods.get((syms[0][1], syms[0][2]))
            if src is not None:
                base = self.word(src, max(w, 64), p)
                if not any(b is gf2.TOP for b in base[:syms[0][1]]):
                    return gf2.wzext(base[:syms[0][1]], w) if w >= syms[0][1] else base[:w]
        return [gf2.TOP] * w

    @staticmethod
    def _lengthlike(lf):
        """only size parameters / remaining-length phis / their quotients: values that are counts, not data"""
        return all(s_ == 1 or (isinstance(s_, tuple) and s_[0] in ("n", "hd", "quo", "rem", "amod")) for s_ in lf)

    def _addr_lf(self, p, ob, c):
        """the numeric address of byte c of object ob: 16 * (opaque) + al * (position of the object within a 16-byte line, unknown) + c, where
        al is the alignment the object is known to have (locals and globals: what the compiler gave them; everything else: none)"""
        al = 1
        if ob[0] == "alloca" and isinstance(ob[1], int):
            al = self.f.insts[ob[1]].get("align") or 1
        if al >= 16:
            return Lf({("addr", ob): 16, 1: c})
        while al & (al - 1):
            al &= al - 1
        sym = ("amod", ob)
        bound = ("ult", Lf({sym: 1, 1: -(16 // al)}), True)
        if bound not in p.conds:
            p.conds.append(bound)
        return Lf({("addr", ob): 16, sym: al, 1: c})

    @staticmethod
    def _addrlike(lf):
        return any(isinstance(s_, tuple) and s_[0] in ("addr", "amod") for s_ in lf)

    def _lowbits(self, p, I, x, m):
        """x & m for a mask m = 2^j - 1 <= 15 and an address-like x: only the position within the line matters; the remainder of the variable
        part is one symbol shared by all offsets into the same object"""
        M = m + 1
        var, c0 = Lf(), 0
        for s_, c in self.subst(p, x).items():
            if s_ == 1:
                c0 = c % M
            elif c % M:
                var = var.add(Lf({s_: c % M}))
        if not var:
            return Lf.c(c0)
        if not self._lengthlike(var):
            return None
        r = self._divmod(p, I, var, M, False, tag=("lo", repr(var), M))
        if self.subst(p, r).const() is not None:
            r = self.subst(p, r)
        if not c0:
            return r
        if r.const() is not None:
            return Lf.c((r.const() + c0) % M)
        return self._divmod(p, I, r.add(Lf.c(c0)), M, False, tag=("lo", repr(r), c0, M))

    def _divmod(self, p, I, sa, cb, want_quo, tag=None):
        """x = cb * Q + R with fresh symbols Q >= 0 and 0 <= R < cb (recorded on the path)"""
        key = (repr(sa), cb)
        if key not in p.divs:
            nm = I.id if tag is None else tag
            p.divs[key] = (("quo", nm), ("rem", nm), sa, cb)
            p.conds.append(("ult", Lf({("rem", nm): 1, 1: -cb}), True))
        qs, rs, _, _ = p.divs[key]
        return Lf.s(qs) if want_quo else Lf.s(rs)

    def subst(self, p, lf):
        """apply equalities known on the path (symbol == constant)"""
        if not p.eqs:
            return lf
        r = Lf()
        for s, c in lf.items():
            if s != 1 and s in p.eqs:
                r = r.add(Lf.c(p.eqs[s] * c))
            else:
                r = r.add(Lf({s: c}))
        return r

    # -- memory ------------------------------------------------------------------
    def _memsym(self, p, obj, off):
        g = p.objgen.get(obj, 0)
        return ("mem", obj, off) if not g else ("mem", obj, off, g)

    def load(self, p, ptr, nbytes, I=None):
        if is_word(ptr):
            return [gf2.TOP] * (8 * nbytes)
        obj, off = self.subst(p, ptr).base()
        if obj is None:
            p.events.append(("load-unknown", I.id if I else None, repr(ptr)))
            return [gf2.TOP] * (8 * nbytes)
        o = off.const()
        symoff = None
        s0 = 0
        if o is None:
            symoff, s0 = symsplit(off)
            p.events.append(("load-sym", I.id if I else None, obj, symoff, nbytes, s0))
        if symoff is None and self.int_cells and self.int_cells(obj, o, nbytes):
            lfc = p.lfmem.get((obj, o, nbytes))
            if lfc is None:
                lfc = Lf.s(("fld", obj, o, p.objgen.get(obj, 0)))
                self.symbits[("fld", obj, o, p.objgen.get(obj, 0))] = 8 * nbytes
                p.lfmem[(obj, o, nbytes)] = lfc
            c_ = self.subst(p, lfc).const()
            if c_ is not None:
                return gf2.const_word(c_ & ((1 << (8 * nbytes)) - 1), 8 * nbytes)
            return gf2.sym_word(("lfcell", repr(self.subst(p, lfc))), 8 * nbytes)
        bits = []
        for k in range(nbytes):
            if symoff is not None:
                cell = p.mem.get((obj, (symoff, s0 + k)))
                if cell is None:
                    cell = [gf2.TOP] * 8 if (obj[0] == "alloca" and not p.objgen.get(obj)) else gf2.sym_word(self._memsym(p, obj, (symoff, s0 + k)), 8)
                    p.events.append(("in-sym", obj, symoff, s0 + k, I.id if I else None))
                bits.extend(cell)
                continue
            cell = p.mem.get((obj, o + k))
            if cell is None:
                if obj[0] == "alloca" and not p.objgen.get(obj):
                    cell = [gf2.TOP] * 8   # uninitialised local byte
                    p.events.append(("read-uninit", I.id if I else None, obj, o + k))
                else:
                    cell = gf2.sym_word(self._memsym(p, obj, o + k), 8)
                p.events.append(("in", obj, o + k, I.id if I else None))
            bits.extend(cell)
        return bits

    def store(self, p, ptr, word, nbytes, I=None):
        if is_word(ptr):
            p.events.append(("store-unknown", I.id if I else None, "word-pointer"))
            return
        obj, off = self.subst(p, ptr).base()
        if obj is None:
            p.events.append(("store-unknown", I.id if I else None, repr(ptr)))
            return
        o = off.const()
        if o is None:
            symoff, s0 = symsplit(off)
            # a store at a symbolic offset may alias any other family of cells of the same object
            for key in [kk for kk in p.mem if kk[0] == obj and not (isinstance(kk[1], tuple) and kk[1][0] == symoff)]:
                del p.mem[key]
            for k in range(nbytes):
                b = word[8 * k: 8 * k + 8]
                p.mem[(obj, (symoff, s0 + k))] = b
                if obj[0] != "alloca":
                    p.events.append(("out-sym", obj, symoff, s0 + k, tuple(b), I.id if I else None))
            return
        for key in [kk for kk in p.mem if kk[0] == obj and isinstance(kk[1], tuple)]:
            del p.mem[key]
        for k in range(nbytes):
            b = word[8 * k: 8 * k + 8]
            p.mem[(obj, o + k)] = b
            if obj[0] != "alloca":
                p.events.append(("out", obj, o + k, tuple(b), I.id if I else None))

    # -- execution -----------------------------------------------------------------
    def run(self, max_paths=400):
        f = self.f
        work = []
        for (lab, setup) in (self.starts or [("", None)]):
            start = PathState()
            start.conds.extend(self.pre_conds)
            if setup:
                setup(self, start)
            if lab:
                start.events.append(("class", "start", lab))
            work.append((0, None, start, "entry"))
        started_heads = set()
        while work:
            b, pred, p, kind = work.pop()
            try:
                self._run_path(b, pred, p, work, started_heads)
            except (AttributeError, TypeError, KeyError) as e:
                raise Broken("irx: value shape not supported by the path executor in %s (%s: %s)" % (f.name, type(e).__name__, str(e)[:120]))
            if len(self.paths) > max_paths:
                raise Broken("irx: too many paths in %s" % f.name)
        return self.paths

    def _finish(self, p, end):
        p.end = end
        self.paths.append(p)

    def _run_path(self, b, pred, p, work, started_heads):
        f = self.f
        rot_start = isinstance(pred, tuple) and pred and pred[0] == "rot"
        if rot_start:
            # generic iteration of an un-rotated loop: it starts at the latch test with the merged values, attributed to the head pred[1]
            p.origin = pred[1]
            p.blocks.append(pred[1])
            pred = "fresh"
            origin = p.origin
        else:
            origin = b if (pred == "fresh") else None
            if pred == "fresh":
                p.origin = b
        # the head a generic iteration started from stays with the path through forks (branches, selects, residue splits): back at
        # that head a forked path is continued only when the test is decided to LEAVE the loop (a class of the last iteration);
        # decided to stay, it ends like any generic iteration - following it would iterate without end (n > 32, n - 32 > 32, ...)
        own = getattr(p, "origin", None)
        first = True
        while True:
            # loop header handling
            if self.unroll:
                # constant-trip loops under call-site constants: blocks are simply followed; bound the work
                p.ncall += 0
                if len(p.blocks) > 4000:
                    raise Broken("irx(unroll): path too long in %s (loop bound not constant?)" % f.name)
            follow = False
            resuming = getattr(p, "resume", None) is not None and p.resume[0] == b
            if b in self.rot_latch and not resuming and not (rot_start and first):
                # back at the latch test of an un-rotated loop: the iteration is complete; the values about to be tested / merged are the back values
                R = self.rot_latch[b]
                for pid, (_ini, nxt) in R["pairs"].items():
                    p.env[("back", pid)] = self.val(p, nxt)
                self._finish(p, ("backedge", R["H"]))
                return
            first = False
            if resuming:
                follow = True       # continuing in the middle of this block: no loop-head bookkeeping
            elif b in self.rot_heads:
                follow = True       # the head of an un-rotated loop is an ordinary block: the cut is at its guard and at its latch test
            elif self.auto and b in self.heads and pred != "fresh":
                # (a generic iteration that started at this head ends when it comes back to it - unless the test is decided to leave the loop)
                follow = self._header_decided(p, b, pred, exit_only=(b == own or b == origin))
                if len(p.blocks) > 6000:
                    raise Broken("irx(auto): path too long in %s" % f.name)
                if not follow and b != origin:
                    sp = self._header_split(p, b, pred)
                    if sp:
                        # the exit test depends on a value with a small finite range on this path (a residue): one case per value
                        for q in self._split(p, sp):
                            work.append((b, pred, q, "fork"))
                        return
            if (b in self.heads and pred != "fresh" and not self.unroll and not follow and b in self.peel and pred not in self.heads[b]["blocks"]
                    and b not in getattr(p, "peeled", frozenset()) and getattr(p, "origin", None) is None):
                # peeled loop: the entry path goes through the first iteration itself and meets the loop head proper at its back edge
                p.peeled = getattr(p, "peeled", frozenset()) | {b}
                follow = True
            if b in self.heads and pred != "fresh" and not self.unroll and not follow:
                L = self.heads[b]
                if pred in L["blocks"] and not (b in getattr(p, "peeled", frozenset()) and getattr(p, "origin", None) is None):
                    # back edge: bind phi values for reporting, then stop
                    q = p
                    for iid in f.blocks[b].insts:
                        I = f.insts[iid]
                        if I.op != "phi":
                            break
                        for inc, pb in I.get("inc"):
                            if pb == pred:
                                q.env[("back", I.id)] = self.val(p, tuple(inc))
                    vr = self.vrem.get(b)
                    if vr is not None:
                        endv, bc = q.env.get(vr[2]), q.env.get(("back", vr[1]))
                        if endv is not None and bc is not None and not is_word(endv) and not is_word(bc):
                            q.env[("back", vr[0])] = endv.add(bc, -1)
                    self._finish(q, ("backedge", b))
                    return
                else:
                    # first entry: prefix path ends here
                    q = p
                    for iid in f.blocks[b].insts:
                        I = f.insts[iid]
                        if I.op != "phi":
                            break
                        for inc, pb in I.get("inc"):
                            if pb == pred:
                                q.env[("init", I.id)] = self.val(p, tuple(inc))
                    vr = None
                    if self.endptr:
                        vr = self.vrem.get(b)
                        if vr is None:
                            fe = self._find_endptr(q, b)
                            if fe is not None:
                                vr = self.vrem[b] = (-(fe[0].id + 1), fe[0].id, fe[1])
                        if vr is not None:
                            ini_c, endv = q.env.get(("init", vr[1])), q.env.get(vr[2])
                            if ini_c is not None and endv is not None and not is_word(ini_c) and not is_word(endv):
                                q.env[("init", vr[0])] = endv.add(ini_c, -1)        # what remains when the loop is entered
                    self._finish(q, ("loop-entry", b))
                    if b not in started_heads or self.fresh_per_entry:
                        started_heads.add(b)
                        n = q.clone()
                        n.events = []
                        n.blocks = []
                        if vr is not None:
                            # generic iteration: the end pointer is the cursor plus an unknown remaining length
                            n.env[vr[2]] = Lf({("hdp", vr[1]): 1, ("hd", vr[0]): 1})
                        if not self.fresh_per_entry:
                            n.conds = [("ult", Lf({rs_: 1, 1: -cb_}), True) for (qs_, rs_, sa_, cb_) in q.divs.values()]
                            n.eqs = {}
                            n.cut = True
                        else:
                            n.events = [e for e in q.events if e[0] == "class"]
                        for iid in f.blocks[b].insts:
                            I = f.insts[iid]
                            if I.op != "phi":
                                break
                            ty = I.get("ty") or ""
                            if I.id in self.head_consts:
                                hv_ = self.head_consts[I.id]
                                n.env[("i", I.id)] = hv_ if isinstance(hv_, Lf) else Lf.c(hv_)
                            elif ty.endswith("*"):
                                n.env[("i", I.id)] = Lf.s(("hdp", I.id))
                                ini_ = q.env.get(("init", I.id))
                                if ini_ is not None and not is_word(ini_) and ini_.base()[0] is not None:
                                    self.hdp_origin[("hdp", I.id)] = self._root(ini_.base()[0])
                            elif I.bits and (is_word(q.env.get(("init", I.id))) or (self.word_phis and self.word_phis(I, q.env.get(("init", I.id))))):
                                n.env[("i", I.id)] = gf2.sym_word(("hdw", I.id), I.bits)
                            else:
                                n.env[("i", I.id)] = Lf.s(("hd", I.id))
                        if self.havoc == "auto":
                            self._auto_havoc(n, L)
                        elif self.havoc:
                            self.havoc(self, n, b)
                        n.start_mem = dict(n.mem)
                        n.start_lfmem = dict(n.lfmem)
                        work.append((b, "fresh", n, "iter"))
                    return
            resume_at = None
            if getattr(p, "resume", None) is not None and p.resume[0] == b:
                resume_at = p.resume[1]
                p.resume = None
            else:
                p.blocks.append(b)
            blk = f.blocks[b]
            forked = False
            for pos_, iid in enumerate(blk.insts):
                if resume_at is not None and pos_ < resume_at:
                    continue
                I = f.insts[iid]
                if I.op == "select" and self.auto:
                    # a select on an undecided comparison of lengths behaves like a branch: one path per outcome
                    c_ = p.env.get(I.ops[0]) if I.ops[0][0] == "i" else None
                    if isinstance(c_, tuple) and c_ and c_[0] == "icmp" and isinstance(c_[2], Lf) and isinstance(c_[3], Lf) and self._decide(p, c_) is None:
                        for truth in (True, False):
                            q = p.clone()
                            sp = self._assume(q, c_, truth)
                            for q2 in self._split(q, sp):
                                q2.env[("i", I.id)] = self.val(q2, I.ops[1] if truth else I.ops[2])
                                q2.resume = (b, pos_ + 1)
                                work.append((b, pred, q2, "fork"))
                        forked = True
                        break
                if I.op in ("zext", "sext") and self.auto and I.ops[0][0] == "i":
                    # an undecided comparison of lengths used as a number (`n / 32 + (n % 32 != 0)`): one path per outcome
                    c_ = p.env.get(I.ops[0])
                    if isinstance(c_, tuple) and c_ and c_[0] == "icmp" and isinstance(c_[2], Lf) and isinstance(c_[3], Lf) and self._decide(p, c_) is None:
                        for truth in (True, False):
                            q = p.clone()
                            sp = self._assume(q, c_, truth)
                            for q2 in self._split(q, sp):
                                q2.env[("i", I.id)] = Lf.c((1 if I.op == "zext" else -1) if truth else 0)
                                q2.resume = (b, pos_ + 1)
                                work.append((b, pred, q2, "fork"))
                        forked = True
                        break
                if I.op == "phi":
                    if pred == "fresh":
                        continue
                    for inc, pb in I.get("inc"):
                        if pb == pred:
                            p.env[("i", I.id)] = self.val(p, tuple(inc))
                    continue
                if I.is_dbg() or I.is_lifetime() or I.op in ("br", "ret", "switch", "unreachable"):
                    continue
                self._step(p, I)
            if forked:
                return
            t = f.term(b)
            if b in self.rot_guard and pred != "fresh":
                # the guard of an un-rotated loop: the prefix ends here as if it had reached the loop head; the generic iteration starts at the
                # latch test with symbols for the merged values (both for the head's phis and for the values the latch hands on)
                R = self.rot_guard[b]
                H = R["H"]
                q = p
                for pid, (ini, _nxt) in R["pairs"].items():
                    q.env[("init", pid)] = self.val(p, ini)
                self._finish(q, ("loop-entry", H))
                if H not in started_heads or self.fresh_per_entry:
                    started_heads.add(H)
                    n = q.clone()
                    n.events = []
                    n.blocks = []
                    if not self.fresh_per_entry:
                        n.conds = [("ult", Lf({rs_: 1, 1: -cb_}), True) for (qs_, rs_, sa_, cb_) in q.divs.values()]
                        n.eqs = {}
                        n.cut = True
                    else:
                        n.events = [e for e in q.events if e[0] == "class"]
                    for pid, (_ini, nxt) in R["pairs"].items():
                        I = f.insts[pid]
                        ty = I.get("ty") or ""
                        if ty.endswith("*"):
                            sym = Lf.s(("hdp", I.id))
                        elif I.bits and (is_word(q.env.get(("init", I.id))) or (self.word_phis and self.word_phis(I, q.env.get(("init", I.id))))):
                            sym = gf2.sym_word(("hdw", I.id), I.bits)
                        else:
                            sym = Lf.s(("hd", I.id))
                        n.env[("i", I.id)] = sym
                        if nxt[0] == "i":
                            n.env[nxt] = sym
                    if self.havoc == "auto":
                        self._auto_havoc(n, R["loop"])
                    elif self.havoc:
                        self.havoc(self, n, H)
                    n.start_mem = dict(n.mem)
                    n.start_lfmem = dict(n.lfmem)
                    work.append((R["T"], ("rot", H), n, "iter"))
                return
            if t.op == "ret":
                rv = self.val(p, t.ops[0]) if t.ops else None
                self._finish(p, ("ret", rv))
                return
            if t.op == "br":
                succ = t.get("succ")
                if not t.get("cond"):
                    pred, b = b, succ[0]
                    continue
                c = p.env.get(t.ops[0]) if t.ops[0][0] == "i" else self.val(p, t.ops[0])
                dec = self._decide(p, c)
                if dec is not None:
                    pred, b = b, (succ[0] if dec else succ[1])
                    continue
                al_ = self._alts(p, c)
                if al_ is not None:
                    # an alignment test over several pointers: one path per elementary alternative
                    for truth, asm in al_:
                        qs_ = [p.clone()]
                        for (c_, t_) in asm:
                            nx_ = []
                            for q in qs_:
                                if self._decide(q, c_) is None:
                                    nx_.extend(self._split(q, self._assume(q, c_, t_)))
                                elif self._decide(q, c_) == t_:
                                    nx_.append(q)
                            qs_ = nx_
                        for q in qs_:
                            q.events.append(("align-class", truth))
                            work.append((succ[0] if truth else succ[1], b, q, "fork"))
                    return
                q = p.clone()
                sp = self._assume(q, c, False)
                exq = self.exit_eq.get(b) if (b in self.heads and origin == b) else None
                for q2 in self._split(q, sp):
                    if exq and succ[1] not in self.heads[b]["blocks"]:
                        q2.env[("i", exq[0])] = exq[1]
                    work.append((succ[1], b, q2, "fork"))
                sp = self._assume(p, c, True)
                alts = self._split(p, sp)
                if exq and succ[0] not in self.heads[b]["blocks"]:
                    for p2 in alts:
                        p2.env[("i", exq[0])] = exq[1]
                for p2 in alts[1:]:
                    work.append((succ[0], b, p2, "fork"))
                p = alts[0]
                pred, b = b, succ[0]
                continue
            if t.op == "switch":
                v = self.val(p, t.ops[0])
                if is_word(v):
                    k = gf2.is_const(v)
                    if k is None:
                        raise Broken("irx: switch on data in %s" % f.name)
                    v = Lf.c(k)
                sv = self.subst(p, v)
                cases = [(int(cv), dst) for cv, dst in t.get("cases")]
                k = sv.const()
                if k is not None:
                    dst = t.get("default")
                    for cv, d in cases:
                        if cv == (k & ((1 << 64) - 1)) or cv == k:
                            dst = d
                    pred, b = b, dst
                    continue
                # fork: one path per case (value pinned), one for the default (all cases excluded)
                zero = Lf()
                for cv, d in cases:
                    q = p.clone()
                    self._assume(q, ("icmp", "eq", sv, Lf.c(cv)), True)
                    work.append((d, b, q, "fork"))
                for cv, d in cases:
                    self._assume(p, ("icmp", "eq", sv, Lf.c(cv)), False)
                pred, b = b, t.get("default")
                continue
            if t.op == "unreachable":
                self._finish(p, ("unreachable", None))
                return
            raise Broken("irx: unsupported terminator %s in %s" % (t.op, f.name))

    def _header_decided(self, p, b, pred, exit_only=False):
        """would the loop header's exit test be decided by the current (concrete) values?  (exit_only: decided to leave the loop)"""
        f = self.f
        t = f.term(b)
        L_ = self.heads.get(b)
        if L_ is not None and (b not in L_.get("exiting", []) or b in L_.get("latches", [])) and not exit_only:
            # a bottom-tested loop: there is no test at its head to decide.  It is followed when ScalarEvolution gives it a constant (small)
            # trip count - a helper loop such as `posn = 4; do { p[--posn] = x; x >>= 8; } while (posn > 0)`: then every test at its bottom
            # is decided by concrete values as the path goes round
            btc = L_.get("btc") or {}
            try:
                if btc.get("k") == "c" and 0 <= int(btc["v"]) < 1024 and len(L_.get("exiting", [])) == 1:
                    return True
            except (TypeError, ValueError):
                pass
            # `while (a && b)` in unoptimised shape: the tests sit in the blocks after the head (the exiting block is their join).  Walk
            # from the head through blocks without side effects, every branch decided by concrete values: reaching the outside of the
            # loop or the first block that does something means the head is decided
            return self._walk_tests(p, b, pred, L_) is not None
        if t.op != "br" or not t.get("cond"):
            return False
        q = p.clone()
        for iid in f.blocks[b].insts:
            I = f.insts[iid]
            if I.op == "phi":
                for inc, pb in I.get("inc"):
                    if pb == pred:
                        q.env[("i", I.id)] = self.val(p, tuple(inc))
                continue
            if I.is_dbg() or I.is_lifetime() or I.op in ("br", "ret", "switch", "unreachable"):
                continue
            if I.op in ("store", "call"):
                return False
            try:
                self._step(q, I)
            except Broken:
                return False
        c = q.env.get(t.ops[0]) if t.ops[0][0] == "i" else self.val(q, t.ops[0])
        # entering a loop from outside, only a test decided by concrete values is followed (a helper loop with a constant trip count in
        # this class); "n != 0, hence n > 0" merely says the first iteration of a data loop happens - the loop is still summarised
        dec = self._decide(q, c, ranges=(pred in self.heads[b]["blocks"]))
        if dec is not None and exit_only:
            succ = t.get("succ")
            return (succ[0] if dec else succ[1]) not in self.heads[b]["blocks"]
        return dec is not None

    def _walk_tests(self, p, b, pred, L_):
        """-> "stay" / "leave" if the side-effect-free blocks from the head on are decided by concrete values, else None"""
        f = self.f
        q = p.clone()
        cur, prv = b, pred
        for _ in range(8):
            for iid in f.blocks[cur].insts:
                I = f.insts[iid]
                if I.op == "phi":
                    for inc, pb in I.get("inc"):
                        if pb == prv:
                            q.env[("i", I.id)] = self.val(q, tuple(inc))
                    continue
                if I.is_dbg() or I.is_lifetime() or I.op in ("br", "ret", "switch", "unreachable"):
                    continue
                if I.op in ("store", "call"):
                    return "stay" if cur != b else None
                try:
                    self._step(q, I)
                except Broken:
                    return None
            t = f.term(cur)
            if t.op != "br":
                return None
            succ = t.get("succ")
            if not t.get("cond"):
                nxt = succ[0]
            else:
                c = q.env.get(t.ops[0]) if t.ops[0][0] == "i" else self.val(q, t.ops[0])
                dec = self._decide(q, c, ranges=False)
                if dec is None:
                    return None
                nxt = succ[0] if dec else succ[1]
            if nxt not in L_["blocks"]:
                return "leave"
            if nxt == b:
                return None
            cur, prv = nxt, cur
        return None

    def _header_split(self, p, b, pred):
        """(symbol, candidate values) if the undecided header test compares linear forms over one symbol of small finite range"""
        f = self.f
        t = f.term(b)
        if t.op != "br" or not t.get("cond"):
            return None
        q = p.clone()
        for iid in f.blocks[b].insts:
            I = f.insts[iid]
            if I.op == "phi":
                for inc, pb in I.get("inc"):
                    if pb == pred:
                        q.env[("i", I.id)] = self.val(p, tuple(inc))
                continue
            if I.is_dbg() or I.is_lifetime() or I.op in ("br", "ret", "switch", "unreachable"):
                continue
            if I.op in ("store", "call"):
                return None
            try:
                self._step(q, I)
            except Broken:
                return None
        c = q.env.get(t.ops[0]) if t.ops[0][0] == "i" else None
        if not (isinstance(c, tuple) and c and c[0] == "icmp"):
            return None
        _, pr, a, bb = c
        if is_word(a) or is_word(bb):
            return None
        d = self.subst(q, a.add(bb, -1))
        syms = [s_ for s_ in d if s_ != 1]
        if len(syms) != 1 or not (isinstance(syms[0], tuple) and syms[0][0] in ("hd", "n", "fld", "rem")):
            return None
        key = Lf({syms[0]: 1})
        lo, hi, excl = self._range(q, key)
        if hi is None or hi - lo >= 64:
            return None
        cand = [x for x in range(lo, hi + 1) if x not in excl]
        if 1 < len(cand) <= self.split_max:
            return (syms[0], cand)
        return None

    def _find_endptr(self, q, b):
        """loop b carries pointer cursors but no integer: is there ONE loop-invariant pointer into the same object as a cursor (the cursor's
        start plus a length) that the loop uses?  -> (cursor phi, valref of the end pointer) or None"""
        f = self.f
        L = self.heads[b]
        phis = [f.insts[i] for i in f.blocks[b].insts if f.insts[i].op == "phi"]
        if any(not (I.get("ty") or "").endswith("*") for I in phis) or not phis:
            return None
        used = set()
        for bb in L["blocks"]:
            for iid in f.blocks[bb].insts:
                for o in f.insts[iid].ops:
                    if isinstance(o, (tuple, list)) and len(o) >= 2 and o[0] == "i":
                        J = f.insts[o[1]]
                        if J.b not in L["blocks"]:
                            used.add(("i", o[1]))
        found = []
        for P in phis:
            ini = q.env.get(("init", P.id))
            if ini is None or is_word(ini) or ini.base()[0] is None:
                continue
            root = ini.base()[0]
            for v in sorted(used):
                x = q.env.get(v)
                if x is None or is_word(x) or not isinstance(x, Lf) or x.base()[0] != root or x == ini:
                    continue
                d = x.add(ini, -1)
                if d and all(s_ == 1 or (isinstance(s_, tuple) and s_[0] == "n") for s_ in d) and any(s_ != 1 for s_ in d):
                    found.append((P, v))
        return found[0] if len(found) == 1 else None

    def _auto_havoc(self, p, L):
        """everything the loop (incl. nested loops and callees given pointers) may write becomes unknown at the head"""
        f = self.f
        for b in L["blocks"]:
            for iid in f.blocks[b].insts:
                I = f.insts[iid]
                targets = []
                if I.op == "store":
                    targets.append((I.ops[1], I.get("size")))
                elif I.op == "call" and not I.is_dbg() and not I.is_lifetime():
                    intr = I.get("intrinsic") or ""
                    if intr.startswith(("llvm.memcpy", "llvm.memmove", "llvm.memset")):
                        a = I.call_args()
                        ln = const_val(a[2]) if a[2][0] == "c" else None
                        targets.append((a[0], ln))
                    elif I.callee in self.callee_writes:
                        for ai, (o_, n_) in self.callee_writes[I.callee].items():
                            a = I.call_args()[ai]
                            targets.append((a, ("range", o_, n_)))
                    else:
                        for a in I.call_args():
                            if a[0] in ("i", "a"):
                                targets.append((a, None))
                for (ptr, n) in targets:
                    base, off = ir.ptr_base(f, ptr)
                    if isinstance(n, tuple):
                        off = (off + n[1]) if off is not None else None
                        n = n[2]
                    if base[0] == "a":
                        if not f.params[base[1]]["ty"].endswith("*"):
                            continue
                        obj = ("arg", base[1])
                    elif base[0] == "i" and f.insts[base[1]].op == "alloca":
                        obj = ("alloca", base[1])
                    elif base[0] == "i" and f.insts[base[1]].op == "phi" and (f.insts[base[1]].get("ty") or "").endswith("*"):
                        obj = ("hdp", base[1])      # cursor of an enclosing loop
                    elif base[0] == "g":
                        obj = ("glob", base[1])
                    elif base[0] == "ce" and base[1] in ("bitcast", "getelementptr") and base[2] and base[2][0][0] == "g":
                        obj = ("glob", base[2][0][1])
                        off = None
                    else:
                        continue
                    if off is not None and n is not None:
                        for k in range(n):
                            p.mem[(obj, off + k)] = gf2.sym_word(("hv", L["header"], obj, off + k), 8)
                        for key in [kk for kk in p.lfmem if kk[0] == obj and kk[1] < off + n and off < kk[1] + kk[2]]:
                            rep = self.cell_alias.get(key, key)
                            p.lfmem[key] = Lf.s(("hvi", L["header"], rep[0], rep[1]))
                    else:
                        p.objgen[obj] = p.objgen.get(obj, 0) + 1 if ("gen", L["header"], obj) not in p.objgen else p.objgen[obj]
                        p.objgen[("gen", L["header"], obj)] = 1
                        for key in [kk for kk in p.mem if kk[0] == obj]:
                            del p.mem[key]
                        for key in [kk for kk in p.lfmem if kk[0] == obj]:
                            del p.lfmem[key]

    # conditions are ("icmp", pred, a, b) tuples stored as env values, or Lf/word constants
    def _divnorm(self, p, d):
        """use x = c*Q + R: a difference that mentions the quotient or remainder of a division together with the dividend is
        rewritten in terms of Q and R only (len - 4*(len/4) becomes len % 4)"""
        for (qs, rs, sa, cb) in p.divs.values():
            if qs not in d and rs not in d:
                continue
            syms = [s_ for s_ in sa if s_ != 1]
            if len(syms) != 1 or sa[syms[0]] != 1 or syms[0] not in d:
                continue
            k0 = sa.get(1, 0)
            coef = d[syms[0]]
            # sym = cb*Q + R - k0
            d = d.add(Lf({syms[0]: 1}), -coef).add(Lf({qs: cb, rs: 1, 1: -k0}), coef)
        return d

    def _root(self, obj):
        return self.hdp_origin.get(obj, obj) if obj[0] == "hdp" else obj

    @staticmethod
    def _orlf_terms(c):
        """(terms, eq?) if c compares a union of low address bits with zero"""
        if isinstance(c, tuple) and c and c[0] == "icmp" and c[1] in ("eq", "ne"):
            for x, y in ((c[2], c[3]), (c[3], c[2])):
                if isinstance(x, tuple) and x and x[0] == "orlf" and isinstance(y, Lf) and y.const() == 0:
                    return list(x[1]), c[1] == "eq"
        return None

    def _alts(self, p, c):
        """an undecided test `(t1 | t2 | ...) == 0` of low address bits as alternatives of elementary assumptions:
        all terms zero / the first i terms zero and the next one not"""
        ot = self._orlf_terms(c)
        if ot is None:
            return None
        ts, iseq = ot
        ts = [t_ for t_ in ts if self._decide(p, ("icmp", "eq", t_, Lf.c(0))) is not True]
        out = []
        for i, t_ in enumerate(ts):
            out.append((not iseq, [(("icmp", "eq", u_, Lf.c(0)), True) for u_ in ts[:i]] + [(("icmp", "eq", t_, Lf.c(0)), False)]))
        out.append((iseq, [(("icmp", "eq", u_, Lf.c(0)), True) for u_ in ts]))
        return out

    def _decide(self, p, c, ranges=True):
        ot = self._orlf_terms(c)
        if ot is not None:
            ds = [self._decide(p, ("icmp", "eq", t_, Lf.c(0)), ranges) for t_ in ot[0]]
            if any(d_ is False for d_ in ds):
                return not ot[1]
            if all(d_ is True for d_ in ds):
                return ot[1]
            return None
        if isinstance(c, tuple) and c and c[0] == "icmp":
            _, pred, a, b = c
            if not (isinstance(a, (Lf, list)) and isinstance(b, (Lf, list))):
                return None         # a comparison of comparison results (boolean data): not decided here
            if not is_word(a) and not is_word(b):
                sa, sb = self.subst(p, a), self.subst(p, b)
                if pred in ("eq", "ne"):
                    # pointers into different objects are different (distinct parameters are assumed not to overlap; locals never do)
                    oa, ob_ = sa.base()[0], sb.base()[0]
                    if oa is not None and ob_ is not None:
                        ra, rb = self._root(oa), self._root(ob_)
                        if ra != rb and ra[0] in ("arg", "alloca", "glob") and rb[0] in ("arg", "alloca", "glob"):
                            return pred == "ne"
                ka, kb = sa.const(), sb.const()
                if ka is not None and kb is not None:
                    return ir.eval_icmp(pred, ka & ((1 << 64) - 1), kb & ((1 << 64) - 1), 64)
                d = self._divnorm(p, self.subst(p, a.add(b, -1)))
                k = d.const()
                if k is not None and pred in ("eq", "ne"):
                    return (k == 0) == (pred == "eq")
                if k is not None and sa.base()[0] is not None and sa.base()[0] == sb.base()[0] and abs(k) < (1 << 62):
                    # two addresses inside one object: their order is the order of the offsets (`in < end`)
                    r_ = {"ult": k < 0, "ule": k <= 0, "ugt": k > 0, "uge": k >= 0, "slt": k < 0, "sle": k <= 0, "sgt": k > 0, "sge": k >= 0}.get(pred)
                    if r_ is not None:
                        return r_
                # bounds from earlier conditions on the same form
                r = self._implied(p, pred, d) if ranges else None
                if r is not None:
                    return r
            elif is_word(a) and is_word(b):
                ca, cb = gf2.is_const(a), gf2.is_const(b)
                if ca is not None and cb is not None:
                    return ir.eval_icmp(pred, ca, cb, len(a))
            return None
        if isinstance(c, Lf):
            k = c.const()
            return None if k is None else bool(k)
        if is_word(c):
            k = gf2.is_const(c)
            return None if k is None else bool(k)
        return None

    @staticmethod
    def _norm(pr, dd, truth):
        """condition ((dd) pr 0) is truth  ->  (key, q, val) meaning  key q val  with key's leading coefficient +1"""
        if dd is None:
            return None
        q = pr if truth else {"eq": "ne", "ne": "eq", "ult": "uge", "uge": "ult", "ugt": "ule", "ule": "ugt"}.get(pr)
        if q is None:
            return None
        kk = Lf(dd)
        c0 = kk.pop(1, 0)
        if not kk:
            return None
        coeffs = set(kk.values())
        if coeffs == {1}:
            return kk, q, -c0
        if coeffs == {-1}:
            kk = Lf({s_: 1 for s_ in kk})
            q = {"ult": "ugt", "ugt": "ult", "ule": "uge", "uge": "ule", "eq": "eq", "ne": "ne"}[q]
            return kk, q, c0
        return None

    def _range(self, p, key):
        lo, hi, excl = 0, None, set()
        for (pr, dd, truth) in p.conds:
            nm = self._norm(pr, dd, truth)
            if nm is None or nm[0] != key:
                continue
            _, q, val = nm
            if q == "eq":
                lo, hi = max(lo, val), val if hi is None else min(hi, val)
            elif q == "ne":
                excl.add(val)
            elif q == "ult":
                hi = val - 1 if hi is None else min(hi, val - 1)
            elif q == "ule":
                hi = val if hi is None else min(hi, val)
            elif q == "ugt":
                lo = max(lo, val + 1)
            elif q == "uge":
                lo = max(lo, val)
        while lo in excl and (hi is None or lo <= hi):
            lo += 1          # x != lo on top of x >= lo
        return lo, hi, excl

    def _implied(self, p, pred, d):
        """is (d pred 0) decided by the conditions already assumed (same linear form up to a constant)?"""
        nm = self._norm(pred, d, True)
        if nm is None:
            return None
        key, q, val = nm
        lo, hi, excl = self._range(p, key)
        if hi is None:
            if q == "uge" and lo >= val:
                return True
            if q == "ugt" and lo > val:
                return True
            if q == "ult" and lo >= val:
                return False
            if q == "ule" and lo > val:
                return False
            if q == "eq" and (val < lo or val in excl):
                return False
            if q == "ne" and (val < lo or val in excl):
                return True
            return None
        if hi - lo >= 4096:
            return None
        cand = [x for x in range(lo, hi + 1) if x not in excl]
        res = {ir.eval_icmp(q, x, val, 64) for x in cand}
        if len(res) == 1:
            return res.pop()
        return None

    def _congr_propagate(self, q, sym, v):
        """sym == v is known and sym is congruent to E modulo g: a remainder E % c (c | g) computed anywhere on the path is v % c"""
        ent = self.congr.get(sym)
        if ent is None:
            return
        E, g = ent
        for (_k, (qs, rs, sa, cb)) in q.divs.items():
            if sa == E and cb > 0 and g % cb == 0 and rs not in q.eqs:
                q.eqs[rs] = v % cb

    def _split(self, p, sp):
        """case split of a path on a symbol whose feasible set is a small finite set (residue classes)"""
        if not sp:
            return [p]
        sym, vals = sp
        out = []
        for v in vals:
            q = p.clone()
            q.eqs[sym] = v
            self._congr_propagate(q, sym, v)
            q.events.append(("class", repr(sym), v))
            out.append(q)
        return out

    def _assume(self, p, c, truth):
        if isinstance(c, tuple) and c and c[0] == "icmp":
            _, pred, a, b = c
            if not (isinstance(a, (Lf, list)) and isinstance(b, (Lf, list))):
                p.events.append(("cond-data", pred, truth))
                p.conds.append(("data", None, truth))
                return None
            if not is_word(a) and not is_word(b):
                d = self._divnorm(p, self.subst(p, a.add(b, -1)))
                p.conds.append((pred, d, truth))
                p.events.append(("cond", pred, repr(d), truth))
                # derive symbol == constant, or a small finite set of values to split on
                return self._derive_eq(p, d)
            p.events.append(("cond-data", pred, truth))
            p.conds.append(("data", None, truth))

    def _upper(self, p, lf):
        """upper bound of a linear form from the path conditions (same form up to a constant), or None"""
        key = Lf(lf)
        k0 = key.pop(1, 0)
        if not key:
            return k0
        best = None
        for (pr, dd, truth) in p.conds:
            if dd is None:
                continue
            kk = Lf(dd)
            c0 = kk.pop(1, 0)
            q = pr if truth else {"eq": "ne", "ne": "eq", "ult": "uge", "uge": "ult", "ugt": "ule", "ule": "ugt"}.get(pr)
            if kk == key:
                # key + c0 q 0
                ub = {"ult": -c0 - 1, "ule": -c0, "eq": -c0}.get(q)
            elif kk == Lf({s_: -c for s_, c in key.items()}):
                # -key + c0 q 0  ->  key q' c0
                ub = {"ugt": c0 - 1, "uge": c0, "eq": c0}.get(q)
            else:
                continue
            if ub is not None:
                best = ub if best is None else min(best, ub)
        return None if best is None else best + k0

    def _derive_eq(self, p, d):
        nm = self._norm("eq", d, True)
        if nm is None or len(nm[0]) != 1:
            return None
        key = nm[0]
        (s,) = tuple(key)
        lo, hi, excl = self._range(p, key)
        if hi is not None and hi - lo < 64:
            cand = [x for x in range(lo, hi + 1) if x not in excl]
            if len(cand) == 1:
                p.eqs[s] = cand[0]
                self._congr_propagate(p, s, cand[0])
            elif 1 < len(cand) <= self.split_max and isinstance(s, tuple) and s[0] in ("hd", "n", "fld", "rem"):
                return (s, cand)
        return None

    def _step(self, p, I):
        f = self.f
        op = I.op
        o = I.ops
        k = ("i", I.id)
        if op == "alloca":
            p.env[k] = Lf.s(("alloca", I.id))
            return
        if op in ("bitcast", "freeze", "inttoptr"):
            p.env[k] = self.val(p, o[0])
            return
        if op == "ptrtoint":
            v = self.val(p, o[0])
            ob, of = (v.base() if not is_word(v) else (None, None))
            if ob is not None and of.const() is not None:
                p.env[k] = self._addr_lf(p, ob, of.const())
            elif ob is not None and self._lengthlike(of):
                p.env[k] = self._addr_lf(p, ob, 0).add(of)
            else:
                p.env[k] = [gf2.TOP] * 64
            return
        if op == "getelementptr":
            base = self.val(p, o[0])
            off = I.get("off")
            if is_word(base) or off is None:
                p.env[k] = [gf2.TOP] * 64
                return
            r = base.add(Lf.c(off))
            for (vv, sc) in I.get("var") or ():
                x = self.val(p, tuple(vv))
                if is_word(x):
                    c = gf2.is_const(x)
                    if c is None:
                        p.env[k] = [gf2.TOP] * 64
                        return
                    x = Lf.c(c)
                r = r.add(x, int(sc))
            p.env[k] = r
            return
        if op == "load":
            ptr = self.val(p, o[0])
            n = I.get("size")
            if (I.get("ty") or "").endswith("*"):
                # pointer-typed load: opaque
                p.env[k] = Lf.s(("ldp", I.id))
                return
            lfc = None
            if not is_word(ptr):
                ob, of = self.subst(p, ptr).base()
                if ob is not None and of.const() is not None:
                    lfc = p.lfmem.get((ob, of.const(), n))
                    if self.int_cells and self.int_cells(ob, of.const(), n):
                        if lfc is None:
                            lfc = Lf.s(("fld", ob, of.const(), p.objgen.get(ob, 0)))
                            self.symbits[("fld", ob, of.const(), p.objgen.get(ob, 0))] = 8 * n
                            p.lfmem[(ob, of.const(), n)] = lfc
                        p.env[k] = lfc
                        return
            w = self.load(p, ptr, n, I)
            if lfc is not None and w == gf2.sym_word(("lf", repr(lfc)), 8 * n):
                p.env[k] = lfc
            else:
                p.env[k] = w
            return
        if op == "store":
            v = self.val(p, o[0])
            ptr = self.val(p, o[1])
            n = I.get("size")
            if self.int_cells:
                pp_ = self.val(p, o[1])
                if not is_word(pp_):
                    ob_, of_ = self.subst(p, pp_).base()
                    if ob_ is not None and of_.const() is not None and self.int_cells(ob_, of_.const(), n):
                        vv_ = v
                        if is_word(vv_):
                            cc_ = gf2.is_const(vv_)
                            vv_ = Lf.c(cc_) if cc_ is not None else Lf.s(("opaque", I.id))
                        vv_ = self.subst(p, vv_)
                        if vv_.const() is not None:
                            vv_ = Lf.c(vv_.const() & ((1 << (8 * n)) - 1))
                        p.lfmem[(ob_, of_.const(), n)] = vv_
                        p.events.append(("store-int", I.id, ob_, of_.const(), repr(vv_)))
                        return
            if not is_word(v):
                c = v.const()
                if c is not None:
                    v = gf2.const_word(c & ((1 << (8 * n)) - 1), 8 * n)
                else:
                    # storing a length / pointer: keep as opaque symbolic bytes tagged with the linear form
                    lfv = self.subst(p, v)
                    pp = self.val(p, o[1])
                    if not is_word(pp):
                        ob, of = self.subst(p, pp).base()
                        if ob is not None and of.const() is not None:
                            p.lfmem[(ob, of.const(), n)] = lfv
                    v = gf2.sym_word(("lf", repr(lfv)), 8 * n)
                    p.events.append(("store-lf", I.id, repr(self.subst(p, self.val(p, o[1]))), repr(self.subst(p, self.val(p, o[0])))))
            self.store(p, ptr, self.word(v, 8 * n, p), n, I)
            return
        if op in ("xor", "and", "or"):
            a, b = self.val(p, o[0]), self.val(p, o[1])
            w = I.bits
            if op == "or" and not is_word(a) and not is_word(b):
                # the union of the low bits of addresses (alignment tests): kept as a set of terms until a mask says which bits matter
                ta = list(a[1]) if isinstance(a, tuple) and a[0] == "orlf" else ([a] if isinstance(a, Lf) else None)
                tb = list(b[1]) if isinstance(b, tuple) and b[0] == "orlf" else ([b] if isinstance(b, Lf) else None)
                if ta is not None and tb is not None and all(self._addrlike(t_) for t_ in ta + tb):
                    p.env[k] = ("orlf", tuple(ta + tb))
                    return
            if op == "and" and (isinstance(a, tuple) or isinstance(b, tuple)):
                x, y = (a, b) if isinstance(a, tuple) else (b, a)
                m = y.const() if isinstance(y, Lf) else None
                if x[0] == "orlf" and m is not None and 0 < m < 16 and (m & (m + 1)) == 0:
                    ts = [self._lowbits(p, I, t_, m) for t_ in x[1]]
                    if all(t_ is not None for t_ in ts):
                        ks = [t_.const() for t_ in ts]
                        if all(c_ is not None for c_ in ks):
                            r_ = 0
                            for c_ in ks:
                                r_ |= c_
                            p.env[k] = Lf.c(r_)
                        else:
                            p.env[k] = ("orlf", tuple(ts))
                        return
            if isinstance(a, tuple) or isinstance(b, tuple):
                p.env[k] = [gf2.TOP] * w
                return
            if op == "and" and not is_word(a) and not is_word(b):
                for x, y in ((a, b), (b, a)):
                    m = y.const()
                    if m is not None and 0 < m < 16 and (m & (m + 1)) == 0 and self._addrlike(x) and any(isinstance(s_, tuple) and s_[0] == "amod" for s_ in x):
                        r_ = self._lowbits(p, I, x, m)
                        if r_ is not None:
                            p.env[k] = r_
                            return
                    if m is not None and m >= 0 and (m & (m + 1)) == 0 and x.const() is None:
                        if all(c % (m + 1) == 0 for s_, c in x.items() if s_ != 1):
                            p.env[k] = Lf.c(x.get(1, 0) & m)
                            return
                        sx = self.subst(p, x)
                        if m > 0 and sx.const() is None and self._lengthlike(sx):
                            p.env[k] = self._divmod(p, I, sx, m + 1, False)
                            return
                    # x & (a mask whose upper bits are clear, e.g. ~3U zero-extended to 64 bits): the length narrowed to kk bits, then rounded down
                    if m is not None and m > 0 and x.const() is None and w == 64:
                        kk = m.bit_length()
                        low = m ^ ((1 << kk) - 1)
                        if 8 <= kk < w and (low & (low + 1)) == 0 and low < 4096:
                            sx = self.subst(p, x)
                            if sx.const() is None and self._lengthlike(sx):
                                ub = self._upper(p, sx)
                                if ub is not None and ub < (1 << kk):
                                    base = sx
                                else:
                                    p.events.append(("narrowing", I.id, kk, repr(sx), bool(getattr(p, "cut", False))))
                                    p.mods[(kk, repr(sx))] = sx
                                    base = Lf.s(("mod", kk, repr(sx)))
                                if low == 0:
                                    p.env[k] = base
                                else:
                                    q_ = self._divmod(p, I, base, low + 1, True)
                                    p.env[k] = Lf({s_: c * (low + 1) for s_, c in q_.items()})
                                return
                    # x & ~(2^k - 1): the length rounded down to a multiple of 2^k
                    if m is not None and x.const() is None:
                        inv = (~m) & ((1 << w) - 1)
                        if m < 0:
                            inv = (~m) & ((1 << w) - 1)
                        if inv > 0 and (inv & (inv + 1)) == 0 and inv < 4096:
                            sx = self.subst(p, x)
                            if sx.const() is None and self._lengthlike(sx):
                                q_ = self._divmod(p, I, sx, inv + 1, True)
                                p.env[k] = Lf({s_: c * (inv + 1) for s_, c in q_.items()})
                                return
            a, b = self.word(a, w, p), self.word(b, w, p)
            p.env[k] = {"xor": gf2.wxor, "and": gf2.wand, "or": gf2.wor}[op](a, b)
            return
        if op in ("shl", "lshr", "ashr"):
            a, s = self.val(p, o[0]), self.val(p, o[1])
            w = I.bits
            sc = self.subst(p, s).const() if not is_word(s) else gf2.is_const(s)
            if sc is None:
                p.env[k] = [gf2.TOP] * w
                return
            if not is_word(a) and op == "shl" and a.const() is None:
                p.env[k] = Lf({s_: c * (1 << sc) for s_, c in a.items()})
                return
            if not is_word(a) and op == "lshr" and self.subst(p, a).const() is None and 0 < sc < w and self._lengthlike(self.subst(p, a)):
                p.env[k] = self._divmod(p, I, self.subst(p, a), 1 << sc, True)
                return
            a = self.word(a, w, p)
            p.env[k] = gf2.wshl(a, sc) if op == "shl" else (gf2.wlshr(a, sc) if op == "lshr" else gf2.washr(a, sc))
            return
        if op in ("zext", "sext", "trunc"):
            a = self.val(p, o[0])
            w = I.bits
            if isinstance(a, tuple):
                # a comparison result used as a number
                dec = self._decide(p, a)
                p.env[k] = Lf.c(int(dec)) if dec is not None else [gf2.TOP] * w
                return
            if is_word(a):
                p.env[k] = gf2.wzext(a, w) if op == "zext" else (gf2.wsext(a, w) if op == "sext" else gf2.wtrunc(a, w))
            elif op == "trunc" and self.subst(p, a).const() is None and w < (I.get("src_bits") or 64):
                # narrowing of a symbolic length / counter: exact only if the path bounds it below 2^w
                ub = self._upper(p, self.subst(p, a))
                if ub is not None and ub < (1 << w):
                    p.env[k] = a
                else:
                    # (cut: this path started at a loop head, where the conditions established before the loop were dropped -
                    # a missing bound is then no evidence that the value is unbounded)
                    p.events.append(("narrowing", I.id, w, repr(self.subst(p, a)), bool(getattr(p, "cut", False))))
                    p.mods[(w, repr(self.subst(p, a)))] = self.subst(p, a)
                    p.env[k] = Lf.s(("mod", w, repr(self.subst(p, a))))
            elif op == "trunc" and self.subst(p, a).const() is not None:
                p.env[k] = Lf.c(self.subst(p, a).const() & ((1 << w) - 1))       # a concrete value is reduced modulo 2^w
            else:
                p.env[k] = a
            return
        if op in ("udiv", "urem"):
            a, b = self.val(p, o[0]), self.val(p, o[1])
            if not is_word(a) and not is_word(b):
                sa, sb = self.subst(p, a), self.subst(p, b)
                ca, cb = sa.const(), sb.const()
                if ca is not None and cb:
                    p.env[k] = Lf.c(ca // cb if op == "udiv" else ca % cb)
                    return
                if cb and cb > 0:
                    p.env[k] = self._divmod(p, I, sa, cb, op == "udiv")
                    return
            p.env[k] = [gf2.TOP] * (I.bits or 64)
            return
        if op in ("add", "sub"):
            a, b = self.val(p, o[0]), self.val(p, o[1])
            if not is_word(a) and not is_word(b):
                p.env[k] = a.add(b, 1 if op == "add" else -1)
                return
            w = I.bits
            a, b = self.word(a, w, p), self.word(b, w, p)
            if op == "add":
                p.env[k] = gf2.wadd(a, b)[0]
            else:
                p.env[k] = gf2.wadd(a, gf2.wnot(b), gf2.ONEBIT)[0]
            return
        if op == "mul":
            a, b = self.val(p, o[0]), self.val(p, o[1])
            if not is_word(a) and not is_word(b):
                ca, cb = a.const(), b.const()
                if ca is not None:
                    p.env[k] = Lf({s_: c * ca for s_, c in b.items()})
                    return
                if cb is not None:
                    p.env[k] = Lf({s_: c * cb for s_, c in a.items()})
                    return
            p.env[k] = [gf2.TOP] * I.bits
            return
        if op == "icmp":
            a, b = self.val(p, o[0]), self.val(p, o[1])
            if is_word(a) != is_word(b):
                # mixed: try to make both words
                w = len(a) if is_word(a) else len(b)
                a, b = self.word(a, w), self.word(b, w)
            p.env[k] = ("icmp", I.get("pred"), a, b)
            return
        if op == "select":
            c = p.env.get(o[0])
            dec = self._decide(p, c)
            a, b = self.val(p, o[1]), self.val(p, o[2])
            if dec is not None:
                p.env[k] = a if dec else b
            elif a == b:
                p.env[k] = a
            else:
                p.env[k] = ("select", c, a, b)
            return
        if op == "call":
            intr = I.get("intrinsic") or ""
            args = [self.val(p, a) for a in I.call_args()]
            if intr.startswith("llvm.memcpy") or intr.startswith("llvm.memmove"):
                n = args[2].const() if not is_word(args[2]) else gf2.is_const(args[2])
                if n is None:
                    n2 = self.subst(p, args[2]).const() if not is_word(args[2]) else None
                    n = n2
                if n is None:
                    r = self.call_handler(self, p, I, "memcpy-var", args)
                    return
                data = self.load(p, args[1], n, I) if n else []
                if n:
                    self.store(p, args[0], data, n, I)
                return
            if intr.startswith("llvm.memset"):
                n = args[2].const() if not is_word(args[2]) else gf2.is_const(args[2])
                if n is None and not is_word(args[2]):
                    n = self.subst(p, args[2]).const()
                if n is None:
                    self.call_handler(self, p, I, "memset-var", args)
                    return
                v = self.word(args[1], 8)
                if n:
                    self.store(p, args[0], v * n, n, I)
                return
            callee = I.callee
            r = self.call_handler(self, p, I, callee, args)
            if r is not None:
                p.env[k] = r
            elif (I.get("ty") or "void") != "void":
                p.env[k] = Lf.s(("ret", I.id))
            return
        raise Broken("irx: unsupported instruction %s in %s (%s)" % (op, f.name, I.where))


def argsym(f, i):
    """symbol of parameter i: pointer parameters are objects ("arg", i), integers are ("n", i)"""
    return ("arg", i) if f.params[i]["ty"].endswith("*") else ("n", i)


def _sext(v, bits):
    if bits < 64 and bits > 1 and v >> (bits - 1):
        # keep small unsigned constants as they are for data ops; only i64/i32 negatives matter for lengths
        return v - (1 << bits)
    if bits == 64 and v >> 63:
        return v - (1 << 64)
    return v


def infer_cell_aliases(ps, header):
    """integer cells that hold the same value whenever the loop head is reached - at every entry and at every back edge: an inductive
    invariant (a state field and its cached local copy).  -> {cell: representative cell}"""
    at = [p for p in ps if p.end[0] in ("loop-entry", "backedge") and p.end[1] == header]
    if not at or not any(p.end[0] == "backedge" for p in at) or not any(p.end[0] == "loop-entry" for p in at):
        return {}
    keys = None
    for p in at:
        ks = {k for k, v in p.lfmem.items() if v is not None}
        keys = ks if keys is None else (keys & ks)
    keys = sorted(keys or (), key=repr)
    alias = {}
    for i, a in enumerate(keys):
        if a in alias:
            continue
        for b in keys[i + 1:]:
            if b in alias or a[2] != b[2]:
                continue
            if all(p.lfmem[a] == p.lfmem[b] for p in at):
                alias[b] = a
    return alias
