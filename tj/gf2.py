"""D-GF2: bit-provenance domain (DESIGN 3.1).

A bit is a frozenset of atoms combined by XOR (duplicates cancel).  Atoms:
  ("1",)                     the constant one
  ("v", sym, i)              bit i of an opaque leaf symbol
  ("&", frozenset({A, B}))   AND of two XOR-sets (hash-consed, never distributed)
TOP (unknown) is None.  A word is a list of bits, LSB first.
No loops are unrolled, no paths enumerated, nothing is solved: this is value
numbering in a Herbrand/GF(2) term domain over straight-line code.
"""
ONE = ("1",)
ZERO = frozenset()
ONEBIT = frozenset([ONE])
TOP = None


def const_word(c, w):
    return [ONEBIT if (c >> i) & 1 else ZERO for i in range(w)]


def sym_word(sym, w):
    return [frozenset([("v", sym, i)]) for i in range(w)]


def bxor(a, b):
    if a is TOP or b is TOP:
        return TOP
    return a ^ b


def band(a, b):
    if a is TOP or b is TOP:
        if a == ZERO or b == ZERO:
            return ZERO
        return TOP
    if not a or not b:
        return ZERO
    if a == ONEBIT:
        return b
    if b == ONEBIT:
        return a
    if a == b:
        return a
    return frozenset([("&", frozenset([a, b]))])


def bor(a, b):
    if a == ZERO:
        return b
    if b == ZERO:
        return a
    if a is TOP or b is TOP:
        return TOP
    if a == b:
        return a
    if a == ONEBIT or b == ONEBIT:
        return ONEBIT
    # native OR atom (flattened, canonical as a set): keeps 'x == 0 iff every OR-ed input is 0' visible
    return frozenset([("|", _orparts(a) | _orparts(b))])


def _orparts(x):
    if len(x) == 1:
        (a,) = tuple(x)
        if a[0] == "|":
            return a[1]
    return frozenset([x])


def evaluate(bit, assign, memo=None):
    """concrete value (0/1) of a term under an assignment {(sym, i): 0/1} (unassigned variables are 0)"""
    if bit is TOP:
        return None
    if memo is None:
        memo = {}
    r = 0
    for a in bit:
        if a == ONE:
            r ^= 1
        elif a[0] == "v":
            r ^= assign.get((a[1], a[2]), 0)
        elif a[0] == "&":
            v = 1
            for part in a[1]:
                k = ("&", part)
                x = memo.get(k)
                if x is None:
                    x = evaluate(part, assign, memo)
                    memo[k] = x
                if x is None:
                    return None
                if not x:
                    v = 0
                    break
            r ^= v
        elif a[0] == "|":
            v = 0
            for part in a[1]:
                k = ("|", part)
                x = memo.get(k)
                if x is None:
                    x = evaluate(part, assign, memo)
                    memo[k] = x
                if x is None:
                    return None
                if x:
                    v = 1
                    break
            r ^= v
    return r


def bnot(a):
    if a is TOP:
        return TOP
    return a ^ ONEBIT


def wxor(a, b):
    return [bxor(x, y) for x, y in zip(a, b)]


def wand(a, b):
    return [band(x, y) for x, y in zip(a, b)]


def wor(a, b):
    return [bor(x, y) for x, y in zip(a, b)]


def wnot(a):
    return [bnot(x) for x in a]


def wshl(a, s):
    w = len(a)
    if s >= w:
        return [ZERO] * w
    return [ZERO] * s + a[: w - s]


def wlshr(a, s):
    w = len(a)
    if s >= w:
        return [ZERO] * w
    return a[s:] + [ZERO] * s


def washr(a, s):
    w = len(a)
    s = min(s, w - 1)
    return a[s:] + [a[-1]] * s


def wzext(a, w):
    return a + [ZERO] * (w - len(a))


def wsext(a, w):
    return a + [a[-1]] * (w - len(a))


def wtrunc(a, w):
    return a[:w]


def wadd(a, b, carry_in=ZERO):
    """ripple-carry add: exact in the domain (majority as xor of ands)"""
    out = []
    c = carry_in
    for x, y in zip(a, b):
        if x is TOP or y is TOP or c is TOP:
            out.append(TOP)
            c = TOP
            continue
        out.append(x ^ y ^ c)
        c = bxor(bxor(band(x, y), band(x, c)), band(y, c))
    return out, c


def is_const(wd):
    v = 0
    for i, b in enumerate(wd):
        if b == ONEBIT:
            v |= 1 << i
        elif b != ZERO:
            return None
    return v


class Gf2:
    """evaluate SSA values of one function; loads, phis, calls and arguments are leaves"""

    def __init__(self, f, leaf=None):
        self.f = f
        self.leaf = leaf
        self.memo = {}

    def width(self, v):
        if v[0] == "c":
            return v[2]
        if v[0] == "a":
            ty = self.f.params[v[1]]["ty"]
            return int(ty[1:]) if ty[1:].isdigit() else 64
        I = self.f.inst(v)
        return I.bits if I is not None and I.bits else 64

    def ev(self, v):
        if v[0] == "c":
            return const_word(int(v[1]), v[2])
        if v in self.memo:
            return self.memo[v]
        r = self._ev(v)
        self.memo[v] = r
        return r

    def _leaf(self, v):
        if self.leaf:
            r = self.leaf(v)
            if r is not None:
                return r
        return sym_word(v, self.width(v))

    def _ev(self, v):
        f = self.f
        if v[0] != "i":
            return self._leaf(v)
        I = f.inst(v)
        op = I.op
        w = I.bits
        if w is None:
            return self._leaf(v)
        if self.leaf:
            r = self.leaf(v)
            if r is not None:
                return r
        o = I.ops
        if op == "xor":
            return wxor(self.ev(o[0]), self.ev(o[1]))
        if op == "and":
            return wand(self.ev(o[0]), self.ev(o[1]))
        if op == "or":
            return wor(self.ev(o[0]), self.ev(o[1]))
        if op in ("shl", "lshr", "ashr"):
            if o[1][0] != "c":
                return [TOP] * w
            s = int(o[1][1])
            a = self.ev(o[0])
            return wshl(a, s) if op == "shl" else (wlshr(a, s) if op == "lshr" else washr(a, s))
        if op == "zext":
            return wzext(self.ev(o[0]), w)
        if op == "sext":
            return wsext(self.ev(o[0]), w)
        if op == "trunc":
            return wtrunc(self.ev(o[0]), w)
        if op == "add":
            return wadd(self.ev(o[0]), self.ev(o[1]))[0]
        if op == "sub":
            r, _ = wadd(self.ev(o[0]), wnot(self.ev(o[1])), ONEBIT)
            return r
        if op == "call":
            intr = I.get("intrinsic") or ""
            a = I.call_args()
            if intr.startswith("llvm.fshl") and a[2][0] == "c":
                s = int(a[2][1]) % w
                if s == 0:
                    return self.ev(a[0])
                return wor(wshl(self.ev(a[0]), s), wlshr(self.ev(a[1]), w - s))
            if intr.startswith("llvm.fshr") and a[2][0] == "c":
                s = int(a[2][1]) % w
                if s == 0:
                    return self.ev(a[1])
                return wor(wshl(self.ev(a[0]), w - s), wlshr(self.ev(a[1]), s))
            return self._leaf(v)
        if op == "select":
            a, b = self.ev(o[1]), self.ev(o[2])
            return [x if x == y else TOP for x, y in zip(a, b)]
        return self._leaf(v)


def describe(bit, limit=6):
    if bit is TOP:
        return "TOP"
    if not bit:
        return "0"
    parts = []
    for a in sorted(bit, key=repr)[:limit]:
        if a == ONE:
            parts.append("1")
        elif a[0] == "v":
            parts.append("%s[%d]" % (a[1], a[2]))
        else:
            parts.append("(" + (" & " if a[0] == "&" else " | ").join(describe(x, 3) for x in sorted(a[1], key=repr)[:4]) + (" ..." if len(a[1]) > 4 else "") + ")")
    s = " ^ ".join(parts)
    if len(bit) > limit:
        s += " ^ ...(%d)" % len(bit)
    return s


def support(bit, memo=None):
    """set of (symbol, bit index) variables a term depends on (syntactically)"""
    if bit is TOP:
        return frozenset()
    if memo is None:
        memo = {}
    r = memo.get(id(bit))
    if r is not None:
        return r[1]
    out = set()
    for a in bit:
        if a[0] == "v":
            out.add((a[1], a[2]))
        elif a[0] in ("&", "|"):
            for part in a[1]:
                out |= support(part, memo)
    out = frozenset(out)
    memo[id(bit)] = (bit, out)
    return out
