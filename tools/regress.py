#!/usr/bin/env python3
"""Self-test of the checkers (DESIGN 7): every corpus mutant and every seeded change must make the check(s) of its
property exit 1; every neutral refactor and the unchanged tree must exit 0.  Works on scratch copies only
(never on /repo); writes REGRESSION.md."""
import json, os, re, shutil, subprocess, sys, tempfile
from concurrent.futures import ThreadPoolExecutor
V = os.path.dirname(os.path.dirname(os.path.abspath(__file__)))
CHECKS = [c["property_id"] for c in json.load(open(os.path.join(V, "MANIFEST.json")))["checks"]]


def corpus():
    items = []
    for line in open(os.path.join(V, "mutants", "README.md")):
        m = re.match(r"\|\s*([mn]\d+)\s*\|\s*([C0-9,]+)\s*\|", line)
        if m:
            items.append((m.group(1), m.group(2).split(","), os.path.join(V, "mutants", m.group(1) + ".patch"), m.group(1).startswith("n")))
    have = {i[0] for i in items}
    for fn in sorted(os.listdir(os.path.join(V, "mutants"))):
        if re.match(r"n\d+[a-z]?\.patch$", fn) and fn[:-6] not in have:
            head = open(os.path.join(V, "mutants", fn)).readline()
            mm = re.search(r"properties=([C0-9, ]+)", head)
            props = re.findall(r"C\d\d", mm.group(1)) if mm else []
            items.append((fn[:-6], props, os.path.join(V, "mutants", fn), True))
    for d in sorted(os.listdir(os.path.join(V, "seeded"))):
        meta = json.load(open(os.path.join(V, "seeded", d, "meta.json")))
        items.append((d, [meta["breaks_property"]], os.path.join(V, "seeded", d, "patch.diff"), False))
    return items


SNAP = None


def snapshot():
    """run the checkers from a frozen copy of /verif's code so that editing /verif during a long run cannot change results"""
    global SNAP
    SNAP = tempfile.mkdtemp(prefix="tjsnap-")
    subprocess.run(["rsync", "-a", "--exclude", ".git", "--exclude", "evidence", "--exclude", "mutants", "--exclude", "seeded", "--exclude", "__pycache__", V + "/", SNAP + "/"], check=True)


def run_one(item):
    name, props, patch, neutral = item
    d = tempfile.mkdtemp(prefix="tjreg-")
    res = {}
    try:
        subprocess.run(["rsync", "-a", "--exclude", "_build", "--exclude", ".git", "/repo/", d + "/repo/"], check=True)
        p = subprocess.run(["patch", "-s", "-p1", "-d", d + "/repo"], stdin=open(patch), stdout=subprocess.PIPE, stderr=subprocess.STDOUT)
        if p.returncode != 0:
            return name, props, neutral, {"*": ("SKIPPED", "patch does not apply")}
        if "--cross" in sys.argv:
            targets = list(CHECKS)
        else:
            targets = [c for c in props if c in CHECKS] if not neutral else [c for c in CHECKS if (c in props or "--all-neutral" in sys.argv)]
        for c in targets:
            env = dict(os.environ, TJ_REPO=d + "/repo", TJ_EVIDENCE_DIR=d + "/ev")
            q = subprocess.run([sys.executable, "-m", "tj.check", c], cwd=SNAP or V, env=env, stdout=subprocess.PIPE, stderr=subprocess.STDOUT, text=True)
            first = ""
            for l in q.stdout.splitlines():
                if "refuted:" in l or "ANALYSIS-BROKEN" in l:
                    first = l.strip()[:160]
                    break
            res[c] = (q.returncode, first)
    finally:
        shutil.rmtree(d, ignore_errors=True)
    return name, props, neutral, res


def main():
    items = corpus()
    snapshot()
    try:
        with ThreadPoolExecutor(max_workers=12) as ex:
            results = list(ex.map(run_one, items))
    finally:
        shutil.rmtree(SNAP, ignore_errors=True)
    lines = ["# Checker self-test (tools/regress.py)", "",
             "Every row is a scratch copy of /repo with one patch applied; `1` = VIOLATION reported, `0` = silent, `2` = ANALYSIS-BROKEN.", "",
             "| change | kind | breaks | results (check: exit) | first report |", "|---|---|---|---|---|"]
    missed, false_alarm, broken, cross = [], [], [], []
    for name, props, neutral, res in results:
        kind = "neutral" if neutral else ("seeded" if "-s" in name else "mutant")
        rs = ", ".join("%s: %s" % (c, r[0]) for c, r in sorted(res.items()))
        first = next((r[1] for c, r in sorted(res.items()) if r[1]), "")
        lines.append("| %s | %s | %s | %s | %s |" % (name, kind, ",".join(props), rs, first.replace("|", "/")))
        for c, r in res.items():
            if not neutral and c not in props:
                if r[0] == 1:
                    cross.append((name, c))
                continue
            if neutral and r[0] == 1:
                false_alarm.append((name, c))
            if neutral and r[0] == 2:
                broken.append((name, c))
            if not neutral and r[0] == 0:
                missed.append((name, c))
            if not neutral and r[0] == 2:
                broken.append((name, c))
    lines += ["", "missed (mutant/seed not reported by a check of its property): %s" % (missed or "none"),
              "false alarms on neutral refactors: %s" % (false_alarm or "none"), "analysis-broken (neither): %s" % (broken or "none")]
    if "--cross" in sys.argv:
        lines += ["", "checks of OTHER properties that also report the change (each triaged in DESIGN.md 0.6: the other property is broken too, or the report was a checker error): %s" % (cross or "none")]
    open(os.path.join(V, "REGRESSION-cross.md" if "--cross" in sys.argv else "REGRESSION.md"), "w").write("\n".join(lines) + "\n")
    print("\n".join(lines[-5:]))
    return 1 if false_alarm else 0


if __name__ == "__main__":
    sys.exit(main())
