#!/bin/sh
# tools/confirm_seed.sh <worktree> <seed-id> <property> ["demo command"]
# Confirms in the scratch worktree that (a) the suite passes with the change, (b) the demo fails with it,
# (c) the demo passes without it; then stores patch/demo/notes/meta under /verif/seeded/<seed-id>/.
WT="$1"; ID="$2"; PROP="$3"
DEMO="${4:-gcc -O1 -I$WT/src $WT/deliver/demo.c $WT/_build/src/libtinyjambu_static.a -o $WT/deliver/demo.bin && $WT/deliver/demo.bin}"
cd "$WT" || exit 2
git diff -- src > /tmp/$ID.patch
[ -s /tmp/$ID.patch ] || { echo "no source change in worktree"; exit 2; }
cmake -G Ninja -S "$WT" -B "$WT/_build" >/dev/null 2>&1; cmake --build "$WT/_build" >/dev/null 2>&1 || { echo "BUILD FAILS with change"; exit 1; }
T1=$(ctest --test-dir "$WT/_build" -j8 2>&1 | grep "tests passed")
sh -c "$DEMO" > /tmp/$ID.with.out 2>&1; R1=$?
git apply -R /tmp/$ID.patch || { echo "cannot reverse patch"; exit 2; }
cmake --build "$WT/_build" >/dev/null 2>&1
sh -c "$DEMO" > /tmp/$ID.without.out 2>&1; R0=$?
git apply /tmp/$ID.patch
cmake --build "$WT/_build" >/dev/null 2>&1
echo "suite with change: $T1"; echo "demo with change: exit $R1: $(tail -2 /tmp/$ID.with.out | tr '\n' ' ')"; echo "demo without change: exit $R0: $(tail -2 /tmp/$ID.without.out | tr '\n' ' ')"
case "$T1" in "100% tests passed"*) ;; *) echo "NOT KEPT: suite does not pass"; exit 1;; esac
if [ $R1 -eq 0 ] || [ $R0 -ne 0 ]; then echo "NOT KEPT: demo does not discriminate"; exit 1; fi
D=/verif/seeded/$ID; mkdir -p $D
cp /tmp/$ID.patch $D/patch.diff
cp "$WT"/deliver/demo.* $D/ 2>/dev/null; rm -f $D/demo.bin $D/demo
cp "$WT"/deliver/notes.txt $D/ 2>/dev/null
python3 - "$ID" "$PROP" "$T1" "$R1" "$R0" "$DEMO" <<'PY'
import json,sys
i,p,t,r1,r0,demo=sys.argv[1:7]
json.dump({"id":i,"breaks_property":p,"source":"independent sub-agent given only the property text and a scratch worktree",
 "needs_to_manifest":"see notes.txt","confirmed":{"suite_with_change":t,"demo_exit_with_change":int(r1),"demo_exit_without_change":int(r0),"demo_cmd":demo.replace("/tmp/wt-"+p,"<worktree>")},
 "detected_by":[]}, open("/verif/seeded/%s/meta.json"%i,"w"), indent=1)
PY
echo "KEPT as $D"
