// tjfacts: LLVM-14 fact extractor for the TinyJAMBU static checks.
//
// Reads one bitcode/IR module, optionally force-inlines internal functions,
// and writes one JSON document with everything the Python rules need:
// functions, params (+names, const-ness of pointee from DWARF), blocks, SSA
// instructions (opcode, types, constant GEP offsets via DataLayout, volatile,
// align, callee, debug file:line), CFG, dominator / post-dominator trees,
// loops, SCEV expressions and back-edge counts, DWARF composite layouts,
// typedef sizes, globals and declarations.
//
// It computes facts only; no rule logic lives here.

#include "llvm/ADT/SmallVector.h"
#include "llvm/Analysis/AssumptionCache.h"
#include "llvm/Analysis/LoopInfo.h"
#include "llvm/Analysis/PostDominators.h"
#include "llvm/Analysis/ScalarEvolution.h"
#include "llvm/Analysis/ScalarEvolutionExpressions.h"
#include "llvm/Analysis/TargetLibraryInfo.h"
#include "llvm/IR/CFG.h"
#include "llvm/IR/Constants.h"
#include "llvm/IR/DataLayout.h"
#include "llvm/IR/DebugInfo.h"
#include "llvm/IR/DebugInfoMetadata.h"
#include "llvm/IR/Dominators.h"
#include "llvm/IR/Function.h"
#include "llvm/IR/InstIterator.h"
#include "llvm/IR/Instructions.h"
#include "llvm/IR/IntrinsicInst.h"
#include "llvm/IR/LLVMContext.h"
#include "llvm/IR/LegacyPassManager.h"
#include "llvm/IR/Module.h"
#include "llvm/IR/Operator.h"
#include "llvm/IR/Verifier.h"
#include "llvm/IRReader/IRReader.h"
#include "llvm/Passes/PassBuilder.h"
#include "llvm/Support/SourceMgr.h"
#include "llvm/Support/raw_ostream.h"
#include "llvm/Transforms/IPO/AlwaysInliner.h"
#include "llvm/Transforms/IPO/GlobalDCE.h"
#include "llvm/Transforms/Scalar/InstSimplifyPass.h"
#include "llvm/Transforms/Scalar/LoopSimplifyCFG.h"
#include "llvm/Transforms/Scalar/SROA.h"
#include "llvm/Transforms/Utils/LoopSimplify.h"
#include "llvm/Transforms/Utils/Mem2Reg.h"

#include <map>
#include <set>
#include <string>

using namespace llvm;

static std::string jstr(StringRef s) {
  std::string o = "\"";
  for (unsigned char c : s) {
    switch (c) {
    case '"': o += "\\\""; break;
    case '\\': o += "\\\\"; break;
    case '\n': o += "\\n"; break;
    case '\t': o += "\\t"; break;
    case '\r': o += "\\r"; break;
    default:
      if (c < 0x20 || c >= 0x7f) {
        char b[8];
        snprintf(b, sizeof b, "\\u%04x", c);
        o += b;
      } else
        o += (char)c;
    }
  }
  o += "\"";
  return o;
}

static std::string tystr(Type *T) {
  std::string s;
  raw_string_ostream os(s);
  T->print(os);
  return os.str();
}

struct FnCtx {
  std::map<const Value *, int> instId;
  std::map<const BasicBlock *, int> blockId;
  std::map<const Argument *, int> argId;
};

static std::string vref(const Value *V, FnCtx &C) {
  if (auto *I = dyn_cast<Instruction>(V)) {
    auto it = C.instId.find(I);
    if (it != C.instId.end())
      return "[\"i\"," + std::to_string(it->second) + "]";
    return "[\"x\",\"foreign-inst\"]";
  }
  if (auto *A = dyn_cast<Argument>(V))
    return "[\"a\"," + std::to_string(A->getArgNo()) + "]";
  if (auto *CI = dyn_cast<ConstantInt>(V)) {
    SmallString<40> s;
    CI->getValue().toStringUnsigned(s);
    return "[\"c\",\"" + std::string(s.str()) + "\"," +
           std::to_string(CI->getBitWidth()) + "]";
  }
  if (isa<ConstantPointerNull>(V))
    return "[\"n\"]";
  if (isa<UndefValue>(V))
    return "[\"u\"]";
  if (auto *F = dyn_cast<Function>(V))
    return "[\"f\"," + jstr(F->getName()) + "]";
  if (auto *G = dyn_cast<GlobalVariable>(V))
    return "[\"g\"," + jstr(G->getName()) + "]";
  if (auto *B = dyn_cast<BasicBlock>(V)) {
    auto it = C.blockId.find(B);
    return "[\"b\"," + std::to_string(it == C.blockId.end() ? -1 : it->second) + "]";
  }
  if (auto *CE = dyn_cast<ConstantExpr>(V)) {
    // bitcast / gep of a global or function: expose the base
    std::string s = "[\"ce\"," + jstr(CE->getOpcodeName()) + ",[";
    bool first = true;
    for (const Use &U : CE->operands()) {
      if (!first) s += ",";
      first = false;
      s += vref(U.get(), C);
    }
    s += "]]";
    return s;
  }
  if (isa<MetadataAsValue>(V))
    return "[\"m\"]";
  if (isa<ConstantAggregateZero>(V))
    return "[\"z\"]";
  if (isa<ConstantDataSequential>(V) || isa<ConstantAggregate>(V)) {
    std::string s;
    raw_string_ostream os(s);
    V->print(os);
    return "[\"k\"," + jstr(os.str()) + "]";
  }
  std::string s;
  raw_string_ostream os(s);
  V->print(os);
  return "[\"x\"," + jstr(os.str()) + "]";
}

static std::string scevJsonInner(const SCEV *S, FnCtx &C, LoopInfo &LI);
static std::string scevJson(const SCEV *S, FnCtx &C, LoopInfo &LI) {
  std::string r = scevJsonInner(S, C, LI);
  if (S->getSCEVType() != scCouldNotCompute && S->getType() && S->getType()->isIntegerTy() && r.size() > 2 && r[0] == '{')
    r = "{\"w\":" + std::to_string(S->getType()->getIntegerBitWidth()) + "," + r.substr(1);
  return r;
}
static std::string scevJsonInner(const SCEV *S, FnCtx &C, LoopInfo &LI) {
  switch (S->getSCEVType()) {
  case scConstant: {
    auto *K = cast<SCEVConstant>(S);
    SmallString<40> s;
    K->getAPInt().toStringSigned(s);
    return "{\"k\":\"c\",\"v\":\"" + std::string(s.str()) + "\",\"bits\":" +
           std::to_string(K->getAPInt().getBitWidth()) + "}";
  }
  case scUnknown: {
    auto *U = cast<SCEVUnknown>(S);
    return "{\"k\":\"u\",\"v\":" + vref(U->getValue(), C) + "}";
  }
  case scTruncate:
  case scZeroExtend:
  case scSignExtend:
  case scPtrToInt: {
    auto *K = cast<SCEVCastExpr>(S);
    const char *n = S->getSCEVType() == scTruncate     ? "trunc"
                    : S->getSCEVType() == scZeroExtend ? "zext"
                    : S->getSCEVType() == scSignExtend ? "sext"
                                                       : "ptrtoint";
    unsigned bits = K->getType()->isPointerTy()
                        ? 64
                        : K->getType()->getIntegerBitWidth();
    return std::string("{\"k\":\"") + n + "\",\"bits\":" + std::to_string(bits) +
           ",\"op\":" + scevJson(K->getOperand(), C, LI) + "}";
  }
  case scAddExpr:
  case scMulExpr:
  case scUMaxExpr:
  case scSMaxExpr:
  case scUMinExpr:
  case scSMinExpr:
  case scSequentialUMinExpr: {
    auto *N = cast<SCEVNAryExpr>(S);
    const char *n = "?";
    switch (S->getSCEVType()) {
    case scAddExpr: n = "add"; break;
    case scMulExpr: n = "mul"; break;
    case scUMaxExpr: n = "umax"; break;
    case scSMaxExpr: n = "smax"; break;
    case scUMinExpr: n = "umin"; break;
    case scSMinExpr: n = "smin"; break;
    default: n = "sumin"; break;
    }
    std::string s = std::string("{\"k\":\"") + n + "\",\"ops\":[";
    for (unsigned i = 0; i < N->getNumOperands(); ++i) {
      if (i) s += ",";
      s += scevJson(N->getOperand(i), C, LI);
    }
    return s + "]}";
  }
  case scUDivExpr: {
    auto *D = cast<SCEVUDivExpr>(S);
    return "{\"k\":\"udiv\",\"l\":" + scevJson(D->getLHS(), C, LI) +
           ",\"r\":" + scevJson(D->getRHS(), C, LI) + "}";
  }
  case scAddRecExpr: {
    auto *A = cast<SCEVAddRecExpr>(S);
    std::string s = "{\"k\":\"rec\",\"loop\":" +
                    std::to_string(C.blockId[A->getLoop()->getHeader()]) +
                    ",\"nuw\":" + (A->hasNoUnsignedWrap() ? "true" : "false") +
                    ",\"nsw\":" + (A->hasNoSignedWrap() ? "true" : "false") +
                    ",\"affine\":" + (A->isAffine() ? "true" : "false") +
                    ",\"ops\":[";
    for (unsigned i = 0; i < A->getNumOperands(); ++i) {
      if (i) s += ",";
      s += scevJson(A->getOperand(i), C, LI);
    }
    return s + "]}";
  }
  case scCouldNotCompute:
    return "{\"k\":\"cnc\"}";
  }
  return "{\"k\":\"cnc\"}";
}

// ---- DWARF helpers -------------------------------------------------------

static const DIType *stripTypedefs(const DIType *T) {
  while (T) {
    if (auto *D = dyn_cast<DIDerivedType>(T)) {
      if (D->getTag() == dwarf::DW_TAG_typedef ||
          D->getTag() == dwarf::DW_TAG_volatile_type ||
          D->getTag() == dwarf::DW_TAG_restrict_type) {
        T = D->getBaseType();
        continue;
      }
    }
    break;
  }
  return T;
}

// describe a parameter type: pointer? pointee const? pointee name, sizes
static std::string diParamInfo(const DIType *T) {
  std::string name = T ? std::string(T->getName()) : "void";
  const DIType *S = stripTypedefs(T);
  bool isptr = false, cst = false;
  std::string pname;
  uint64_t psize = 0;
  if (S)
    if (auto *D = dyn_cast<DIDerivedType>(S))
      if (D->getTag() == dwarf::DW_TAG_pointer_type) {
        isptr = true;
        const DIType *P = D->getBaseType();
        // peel const/volatile/typedef recording const
        while (P) {
          if (auto *PD = dyn_cast<DIDerivedType>(P)) {
            if (PD->getTag() == dwarf::DW_TAG_const_type) {
              cst = true;
              P = PD->getBaseType();
              continue;
            }
            if (PD->getTag() == dwarf::DW_TAG_volatile_type) {
              P = PD->getBaseType();
              continue;
            }
            if (PD->getTag() == dwarf::DW_TAG_typedef) {
              if (pname.empty()) pname = std::string(PD->getName());
              P = PD->getBaseType();
              continue;
            }
          }
          break;
        }
        if (P) {
          if (pname.empty()) pname = std::string(P->getName());
          psize = P->getSizeInBits() / 8;
          if (P->getTag() == dwarf::DW_TAG_subroutine_type) pname = "(fn)";
        } else if (pname.empty())
          pname = "void";
      }
  return "{\"type\":" + jstr(name) + ",\"ptr\":" + (isptr ? "true" : "false") +
         ",\"const_pointee\":" + (cst ? "true" : "false") +
         ",\"pointee\":" + jstr(pname) + ",\"pointee_size\":" +
         std::to_string(psize) + "}";
}

static void emitComposite(const DICompositeType *CT, StringRef alias,
                          std::string &out, bool &first) {
  if (CT->getTag() != dwarf::DW_TAG_structure_type &&
      CT->getTag() != dwarf::DW_TAG_union_type)
    return;
  if (!first) out += ",";
  first = false;
  out += "{\"name\":" + jstr(alias.empty() ? CT->getName() : alias) +
         ",\"tag\":" + jstr(CT->getTag() == dwarf::DW_TAG_union_type ? "union" : "struct") +
         ",\"size\":" + std::to_string(CT->getSizeInBits() / 8) +
         ",\"align\":" + std::to_string(CT->getAlignInBits() / 8) +
         ",\"members\":[";
  bool f2 = true;
  for (const DINode *N : CT->getElements()) {
    if (auto *M = dyn_cast<DIDerivedType>(N)) {
      if (M->getTag() != dwarf::DW_TAG_member) continue;
      if (!f2) out += ",";
      f2 = false;
      const DIType *BT = M->getBaseType();
      std::string tn = BT ? std::string(BT->getName()) : "";
      const DIType *SB = stripTypedefs(BT);
      std::string kind = "scalar";
      uint64_t elems = 0, esize = 0;
      if (SB) {
        if (auto *AC = dyn_cast<DICompositeType>(SB)) {
          if (AC->getTag() == dwarf::DW_TAG_array_type) {
            kind = "array";
            const DIType *ET = AC->getBaseType();
            esize = ET ? ET->getSizeInBits() / 8 : 0;
            elems = esize ? (AC->getSizeInBits() / 8) / esize : 0;
          } else
            kind = "struct";
        } else if (auto *DD = dyn_cast<DIDerivedType>(SB)) {
          if (DD->getTag() == dwarf::DW_TAG_pointer_type) kind = "pointer";
        }
      }
      out += "{\"name\":" + jstr(M->getName()) + ",\"offset\":" +
             std::to_string(M->getOffsetInBits() / 8) + ",\"size\":" +
             std::to_string(M->getSizeInBits() / 8) + ",\"type\":" + jstr(tn) +
             ",\"kind\":" + jstr(kind) + ",\"elems\":" + std::to_string(elems) +
             ",\"esize\":" + std::to_string(esize) + "}";
    }
  }
  out += "]}";
}

// -------------------------------------------------------------------------

int main(int argc, char **argv) {
  bool doInline = false;
  bool normalise = false;
  std::string in, outp;
  for (int i = 1; i < argc; ++i) {
    std::string a = argv[i];
    if (a == "--inline-internal") doInline = true;
    else if (a == "--normalise") normalise = true;
    else if (a == "-o" && i + 1 < argc) outp = argv[++i];
    else in = a;
  }
  if (in.empty() || outp.empty()) {
    errs() << "usage: tjfacts [--inline-internal] [--normalise] in.bc -o out.json\n";
    return 2;
  }
  LLVMContext Ctx;
  SMDiagnostic Err;
  std::unique_ptr<Module> M = parseIRFile(in, Err, Ctx);
  if (!M) {
    Err.print("tjfacts", errs());
    return 2;
  }

  LoopAnalysisManager LAM;
  FunctionAnalysisManager FAM;
  CGSCCAnalysisManager CGAM;
  ModuleAnalysisManager MAM;
  PassBuilder PB;
  PB.registerModuleAnalyses(MAM);
  PB.registerCGSCCAnalyses(CGAM);
  PB.registerFunctionAnalyses(FAM);
  PB.registerLoopAnalyses(LAM);
  PB.crossRegisterProxies(LAM, FAM, CGAM, MAM);

  if (normalise || doInline) {
    ModulePassManager MPM;
    if (doInline) {
      for (Function &F : *M)
        if (!F.isDeclaration() && F.hasLocalLinkage() && !F.hasAddressTaken()) {
          // clang -O0 marks every function noinline; the source has no
          // explicit noinline attributes, so it is safe to drop it here
          F.removeFnAttr(Attribute::NoInline);
          F.removeFnAttr(Attribute::OptimizeNone);
          F.addFnAttr(Attribute::AlwaysInline);
        }
      // thin wrappers around the tag check (a helper that ends a decrypt function with generate_tag + check_tag): the call-site rules
      // are about what reaches tinyjambu_aead_check_tag from the public decrypt functions, so a non-local function of the library
      // that calls it and is itself called from the library is inlined into its callers (its external definition stays)
      for (Function &F : *M) {
        if (F.isDeclaration() || F.hasLocalLinkage() || F.getName() == "tinyjambu_aead_check_tag") continue;
        bool callsCT = false, isCalled = false;
        for (BasicBlock &BB : F)
          for (Instruction &I : BB)
            if (auto *CB = dyn_cast<CallBase>(&I))
              if (Function *Cal = CB->getCalledFunction())
                if (Cal->getName() == "tinyjambu_aead_check_tag") callsCT = true;
        if (!callsCT) continue;
        for (User *U : F.users())
          if (auto *CB = dyn_cast<CallBase>(U))
            if (CB->getCalledFunction() == &F) isCalled = true;
        if (isCalled && !F.hasAddressTaken()) {
          F.removeFnAttr(Attribute::NoInline);
          F.removeFnAttr(Attribute::OptimizeNone);
          F.addFnAttr(Attribute::AlwaysInline);
        }
      }
      MPM.addPass(AlwaysInlinerPass(false));
      MPM.addPass(GlobalDCEPass());
    }
    FunctionPassManager FPM;
    FPM.addPass(SROAPass());
    FPM.addPass(PromotePass());
    FPM.addPass(InstSimplifyPass());
    FPM.addPass(LoopSimplifyPass());
    MPM.addPass(createModuleToFunctionPassAdaptor(std::move(FPM)));
    MPM.run(*M, MAM);
  }
  if (verifyModule(*M, &errs())) {
    errs() << "tjfacts: module does not verify\n";
    return 2;
  }

  const DataLayout &DL = M->getDataLayout();
  std::error_code EC;
  raw_fd_ostream O(outp, EC);
  if (EC) {
    errs() << "cannot open " << outp << "\n";
    return 2;
  }

  O << "{\"datalayout\":" << jstr(DL.getStringRepresentation())
    << ",\"triple\":" << jstr(M->getTargetTriple());

  // globals
  O << ",\"globals\":[";
  {
    bool first = true;
    for (GlobalVariable &G : M->globals()) {
      if (!first) O << ",";
      first = false;
      std::string file;
      unsigned line = 0;
      SmallVector<DIGlobalVariableExpression *, 2> GVs;
      G.getDebugInfo(GVs);
      std::string scope;
      if (!GVs.empty()) {
        auto *DGV = GVs[0]->getVariable();
        file = std::string(DGV->getFilename());
        line = DGV->getLine();
        if (auto *SP = dyn_cast_or_null<DISubprogram>(DGV->getScope()))
          scope = std::string(SP->getName());
        else if (auto *LB = dyn_cast_or_null<DILexicalBlockBase>(DGV->getScope()))
          if (auto *SP2 = LB->getSubprogram()) scope = std::string(SP2->getName());
      }
      uint64_t sz = G.getValueType()->isSized() ? DL.getTypeAllocSize(G.getValueType()) : 0;
      O << "{\"name\":" << jstr(G.getName())
        << ",\"constant\":" << (G.isConstant() ? "true" : "false")
        << ",\"declaration\":" << (G.isDeclaration() ? "true" : "false")
        << ",\"internal\":" << (G.hasLocalLinkage() ? "true" : "false")
        << ",\"tls\":" << (G.isThreadLocal() ? "true" : "false")
        << ",\"type\":" << jstr(tystr(G.getValueType())) << ",\"size\":" << sz
        << ",\"section\":" << jstr(G.getSection())
        << ",\"file\":" << jstr(file) << ",\"line\":" << line
        << ",\"scope\":" << jstr(scope) << "}";
    }
  }
  O << "]";

  // declarations (external functions)
  O << ",\"declarations\":[";
  {
    bool first = true;
    for (Function &F : *M)
      if (F.isDeclaration()) {
        if (!first) O << ",";
        first = false;
        O << "{\"name\":" << jstr(F.getName()) << ",\"intrinsic\":"
          << (F.isIntrinsic() ? "true" : "false") << ",\"uses\":"
          << F.getNumUses() << ",\"weak\":"
          << (F.hasExternalWeakLinkage() ? "true" : "false") << "}";
      }
  }
  O << "]";

  // DWARF composites and typedef sizes
  {
    std::string comp;
    bool first = true;
    std::string tds;
    bool firstTd = true;
    std::set<const DICompositeType *> seen;
    std::set<std::string> seenTd;
    DebugInfoFinder DIF;
    DIF.processModule(*M);
    for (const DIType *T : DIF.types()) {
      if (auto *D = dyn_cast<DIDerivedType>(T)) {
        if (D->getTag() == dwarf::DW_TAG_typedef) {
          const DIType *B = stripTypedefs(D);
          uint64_t sz = B ? B->getSizeInBits() / 8 : 0;
          uint64_t al = B ? B->getAlignInBits() / 8 : 0;
          std::string nm = std::string(D->getName());
          if (!seenTd.count(nm)) {
            seenTd.insert(nm);
            if (!firstTd) tds += ",";
            firstTd = false;
            tds += jstr(nm) + ":{\"size\":" + std::to_string(sz) +
                   ",\"align\":" + std::to_string(al) + "}";
          }
          if (B)
            if (auto *CT = dyn_cast<DICompositeType>(B))
              if (CT->getName().empty() && !seen.count(CT)) {
                seen.insert(CT);
                emitComposite(CT, D->getName(), comp, first);
              }
        }
      }
    }
    for (const DIType *T : DIF.types())
      if (auto *CT = dyn_cast<DICompositeType>(T))
        if (!CT->getName().empty() && !seen.count(CT)) {
          seen.insert(CT);
          emitComposite(CT, "", comp, first);
        }
    O << ",\"composites\":[" << comp << "],\"typedefs\":{" << tds << "}";
  }

  // functions
  O << ",\"functions\":[";
  bool firstF = true;
  for (Function &F : *M) {
    if (F.isDeclaration()) continue;
    if (!firstF) O << ",";
    firstF = false;
    FnCtx C;
    int nb = 0, ni = 0;
    for (BasicBlock &B : F) {
      C.blockId[&B] = nb++;
      for (Instruction &I : B) C.instId[&I] = ni++;
    }
    DominatorTree &DT = FAM.getResult<DominatorTreeAnalysis>(F);
    PostDominatorTree &PDT = FAM.getResult<PostDominatorTreeAnalysis>(F);
    LoopInfo &LI = FAM.getResult<LoopAnalysis>(F);
    ScalarEvolution &SE = FAM.getResult<ScalarEvolutionAnalysis>(F);

    std::string file;
    unsigned line = 0;
    DISubprogram *SP = F.getSubprogram();
    if (SP) {
      file = std::string(SP->getFilename());
      line = SP->getLine();
    }
    O << "{\"name\":" << jstr(F.getName()) << ",\"internal\":"
      << (F.hasLocalLinkage() ? "true" : "false") << ",\"file\":" << jstr(file)
      << ",\"line\":" << line << ",\"address_taken\":"
      << (F.hasAddressTaken() ? "true" : "false")
      << ",\"ret\":" << jstr(tystr(F.getReturnType()));
    // params
    O << ",\"params\":[";
    {
      DITypeRefArray TA = SP && SP->getType() ? SP->getType()->getTypeArray()
                                              : DITypeRefArray();
      // names from retained nodes / dbg intrinsics
      std::map<unsigned, std::string> names;
      for (BasicBlock &B : F)
        for (Instruction &I : B)
          if (auto *DV = dyn_cast<DbgVariableIntrinsic>(&I))
            if (auto *V = DV->getVariable())
              if (V->getArg() && DV->getDebugLoc() && !DV->getDebugLoc()->getInlinedAt() &&
                  V->getScope() && V->getScope()->getSubprogram() == SP)
                names[V->getArg() - 1] = std::string(V->getName());
      if (SP)
        for (const DINode *N : SP->getRetainedNodes())
          if (auto *V = dyn_cast<DILocalVariable>(N))
            if (V->getArg()) names[V->getArg() - 1] = std::string(V->getName());
      bool first = true;
      for (Argument &A : F.args()) {
        if (!first) O << ",";
        first = false;
        std::string nm = !A.getName().empty() ? std::string(A.getName())
                         : names.count(A.getArgNo()) ? names[A.getArgNo()] : std::string();
        const DIType *PT = nullptr;
        if (TA && A.getArgNo() + 1 < TA.size()) PT = TA[A.getArgNo() + 1];
        O << "{\"name\":" << jstr(nm) << ",\"ty\":" << jstr(tystr(A.getType()))
          << ",\"di\":" << diParamInfo(PT) << "}";
      }
    }
    O << "]";

    // blocks
    O << ",\"blocks\":[";
    {
      bool first = true;
      for (BasicBlock &B : F) {
        if (!first) O << ",";
        first = false;
        O << "{\"id\":" << C.blockId[&B] << ",\"name\":" << jstr(B.getName());
        O << ",\"insts\":[";
        bool f2 = true;
        for (Instruction &I : B) {
          if (!f2) O << ",";
          f2 = false;
          O << C.instId[&I];
        }
        O << "],\"succs\":[";
        f2 = true;
        for (BasicBlock *S : successors(&B)) {
          if (!f2) O << ",";
          f2 = false;
          O << C.blockId[S];
        }
        O << "],\"preds\":[";
        f2 = true;
        for (BasicBlock *P : predecessors(&B)) {
          if (!f2) O << ",";
          f2 = false;
          O << C.blockId[P];
        }
        O << "]";
        int idom = -1, ipdom = -1;
        if (auto *N = DT.getNode(&B))
          if (N->getIDom()) idom = C.blockId[N->getIDom()->getBlock()];
        if (auto *N = PDT.getNode(&B))
          if (N->getIDom() && N->getIDom()->getBlock())
            ipdom = C.blockId[N->getIDom()->getBlock()];
        O << ",\"idom\":" << idom << ",\"ipdom\":" << ipdom;
        Loop *L = LI.getLoopFor(&B);
        O << ",\"loop\":" << (L ? C.blockId[L->getHeader()] : -1)
          << ",\"depth\":" << LI.getLoopDepth(&B)
          << ",\"reachable\":" << (DT.isReachableFromEntry(&B) ? "true" : "false")
          << "}";
      }
    }
    O << "]";

    // loops
    O << ",\"loops\":[";
    {
      bool first = true;
      for (Loop *L : LI.getLoopsInPreorder()) {
        if (!first) O << ",";
        first = false;
        O << "{\"header\":" << C.blockId[L->getHeader()] << ",\"parent\":"
          << (L->getParentLoop() ? C.blockId[L->getParentLoop()->getHeader()] : -1)
          << ",\"blocks\":[";
        bool f2 = true;
        for (BasicBlock *B : L->blocks()) {
          if (!f2) O << ",";
          f2 = false;
          O << C.blockId[B];
        }
        O << "],\"latches\":[";
        SmallVector<BasicBlock *, 4> Ls;
        L->getLoopLatches(Ls);
        f2 = true;
        for (BasicBlock *B : Ls) {
          if (!f2) O << ",";
          f2 = false;
          O << C.blockId[B];
        }
        O << "],\"exiting\":[";
        SmallVector<BasicBlock *, 4> Ex;
        L->getExitingBlocks(Ex);
        f2 = true;
        for (BasicBlock *B : Ex) {
          if (!f2) O << ",";
          f2 = false;
          O << C.blockId[B];
        }
        O << "],\"exits\":[";
        SmallVector<BasicBlock *, 4> Eb;
        L->getExitBlocks(Eb);
        f2 = true;
        for (BasicBlock *B : Eb) {
          if (!f2) O << ",";
          f2 = false;
          O << C.blockId[B];
        }
        O << "],\"preheader\":"
          << (L->getLoopPreheader() ? C.blockId[L->getLoopPreheader()] : -1);
        const SCEV *BTC = SE.getBackedgeTakenCount(L);
        O << ",\"btc\":" << scevJson(BTC, C, LI);
        std::string bs;
        raw_string_ostream bos(bs);
        BTC->print(bos);
        O << ",\"btc_text\":" << jstr(bos.str()) << "}";
      }
    }
    O << "]";

    // instructions
    O << ",\"insts\":[";
    {
      bool first = true;
      for (BasicBlock &B : F)
        for (Instruction &I : B) {
          if (!first) O << ",";
          first = false;
          O << "{\"id\":" << C.instId[&I] << ",\"b\":" << C.blockId[&B]
            << ",\"op\":" << jstr(I.getOpcodeName()) << ",\"ty\":"
            << jstr(tystr(I.getType()));
          if (I.getType()->isIntegerTy())
            O << ",\"bits\":" << I.getType()->getIntegerBitWidth();
          if (!I.getName().empty()) O << ",\"name\":" << jstr(I.getName());
          if (const DebugLoc &D = I.getDebugLoc()) {
            // outermost inlined-at chain: report both the innermost location
            // and the chain of call sites
            O << ",\"loc\":[" << jstr(cast<DIScope>(D.getScope())->getFilename())
              << "," << D.getLine() << "," << D.getCol() << "]";
            if (DILocation *IA = D.getInlinedAt()) {
              O << ",\"inlined_at\":[";
              bool f3 = true;
              while (IA) {
                if (!f3) O << ",";
                f3 = false;
                O << "[" << jstr(IA->getFilename()) << "," << IA->getLine() << "]";
                IA = IA->getInlinedAt();
              }
              O << "]";
            }
          }
          O << ",\"ops\":[";
          bool f2 = true;
          for (const Use &U : I.operands()) {
            if (!f2) O << ",";
            f2 = false;
            O << vref(U.get(), C);
          }
          O << "]";
          if (auto *OB = dyn_cast<OverflowingBinaryOperator>(&I))
            O << ",\"nsw\":" << (OB->hasNoSignedWrap() ? "true" : "false")
              << ",\"nuw\":" << (OB->hasNoUnsignedWrap() ? "true" : "false");
          if (auto *G = dyn_cast<GetElementPtrInst>(&I)) {
            unsigned BW = DL.getIndexTypeSizeInBits(G->getType());
            APInt Off(BW, 0);
            MapVector<Value *, APInt> VarOffs;
            bool ok = cast<GEPOperator>(G)->collectOffset(DL, BW, VarOffs, Off);
            if (G->getResultElementType()->isAggregateType())
              O << ",\"agg_size\":" << DL.getTypeAllocSize(G->getResultElementType());
            O << ",\"inbounds\":" << (G->isInBounds() ? "true" : "false")
              << ",\"srcty\":" << jstr(tystr(G->getSourceElementType()));
            if (ok) {
              SmallString<40> s;
              Off.toStringSigned(s);
              O << ",\"off\":" << s.str() << ",\"var\":[";
              bool f3 = true;
              for (auto &KV : VarOffs) {
                if (!f3) O << ",";
                f3 = false;
                SmallString<40> s2;
                KV.second.toStringSigned(s2);
                O << "[" << vref(KV.first, C) << "," << s2.str() << "]";
              }
              O << "]";
            }
            // enclosing extent: walk indices; first variable index into an
            // array type bounds the access to that array
            {
              Type *Cur = G->getSourceElementType();
              int64_t base = 0;
              bool have = false;
              int64_t lo = 0, hi = 0;
              auto it = G->idx_begin();
              bool firstIdx = true;
              bool bad = false;
              for (; it != G->idx_end(); ++it) {
                Value *Idx = it->get();
                if (firstIdx) {
                  firstIdx = false;
                  if (auto *CI = dyn_cast<ConstantInt>(Idx))
                    base += CI->getSExtValue() * (int64_t)DL.getTypeAllocSize(Cur);
                  else { bad = true; break; }
                  continue;
                }
                if (auto *ST = dyn_cast<StructType>(Cur)) {
                  auto *CI = cast<ConstantInt>(Idx);
                  base += DL.getStructLayout(ST)->getElementOffset(CI->getZExtValue());
                  Cur = ST->getElementType(CI->getZExtValue());
                } else if (auto *AT = dyn_cast<ArrayType>(Cur)) {
                  if (!have) {
                    have = true;
                    lo = base;
                    hi = base + (int64_t)DL.getTypeAllocSize(AT);
                  }
                  if (auto *CI = dyn_cast<ConstantInt>(Idx))
                    base += CI->getSExtValue() * (int64_t)DL.getTypeAllocSize(AT->getElementType());
                  Cur = AT->getElementType();
                } else { bad = true; break; }
              }
              if (have && !bad)
                O << ",\"extent\":[" << lo << "," << hi << "]";
            }
          }
          if (auto *L = dyn_cast<LoadInst>(&I))
            O << ",\"align\":" << L->getAlign().value() << ",\"volatile\":"
              << (L->isVolatile() ? "true" : "false") << ",\"size\":"
              << DL.getTypeStoreSize(L->getType());
          if (auto *S = dyn_cast<StoreInst>(&I))
            O << ",\"align\":" << S->getAlign().value() << ",\"volatile\":"
              << (S->isVolatile() ? "true" : "false") << ",\"size\":"
              << DL.getTypeStoreSize(S->getValueOperand()->getType());
          if (auto *A = dyn_cast<AllocaInst>(&I)) {
            uint64_t sz = 0;
            if (auto s = A->getAllocationSizeInBits(DL)) sz = *s / 8;
            O << ",\"alloc_size\":" << sz << ",\"align\":" << A->getAlign().value()
              << ",\"alloc_ty\":" << jstr(tystr(A->getAllocatedType()))
              << ",\"static\":" << (A->isStaticAlloca() ? "true" : "false");
          }
          if (auto *IC = dyn_cast<ICmpInst>(&I))
            O << ",\"pred\":" << jstr(CmpInst::getPredicateName(IC->getPredicate()));
          if (auto *P = dyn_cast<PHINode>(&I)) {
            O << ",\"inc\":[";
            for (unsigned k = 0; k < P->getNumIncomingValues(); ++k) {
              if (k) O << ",";
              O << "[" << vref(P->getIncomingValue(k), C) << ","
                << C.blockId[P->getIncomingBlock(k)] << "]";
            }
            O << "]";
          }
          if (auto *BR = dyn_cast<BranchInst>(&I)) {
            O << ",\"cond\":" << (BR->isConditional() ? "true" : "false")
              << ",\"succ\":[";
            for (unsigned k = 0; k < BR->getNumSuccessors(); ++k) {
              if (k) O << ",";
              O << C.blockId[BR->getSuccessor(k)];
            }
            O << "]";
          }
          if (auto *SW = dyn_cast<SwitchInst>(&I)) {
            O << ",\"default\":" << C.blockId[SW->getDefaultDest()] << ",\"cases\":[";
            bool f3 = true;
            for (auto &Cs : SW->cases()) {
              if (!f3) O << ",";
              f3 = false;
              SmallString<40> s;
              Cs.getCaseValue()->getValue().toStringUnsigned(s);
              O << "[\"" << s.str() << "\"," << C.blockId[Cs.getCaseSuccessor()] << "]";
            }
            O << "]";
          }
          if (auto *CB = dyn_cast<CallBase>(&I)) {
            Function *Callee = CB->getCalledFunction();
            const Value *CV = CB->getCalledOperand()->stripPointerCasts();
            if (!Callee) Callee = const_cast<Function *>(dyn_cast<Function>(CV));
            O << ",\"callee\":";
            if (Callee) O << jstr(Callee->getName());
            else O << "null";
            if (Callee && !Callee->isIntrinsic() && Callee->getFunctionType() != CB->getFunctionType())
              O << ",\"proto_mismatch\":" << jstr(tystr(CB->getFunctionType()) + " called, defined as " + tystr(Callee->getFunctionType()));
            O << ",\"callee_op\":" << vref(CB->getCalledOperand(), C);
            O << ",\"nargs\":" << CB->arg_size();
            if (auto *II = dyn_cast<IntrinsicInst>(&I))
              O << ",\"intrinsic\":" << jstr(Intrinsic::getBaseName(II->getIntrinsicID()));
            if (auto *MI = dyn_cast<MemIntrinsic>(&I))
              O << ",\"volatile\":" << (MI->isVolatile() ? "true" : "false")
                << ",\"dest_align\":" << (MI->getDestAlign() ? MI->getDestAlign()->value() : 0);
            if (auto *MT = dyn_cast<MemTransferInst>(&I))
              O << ",\"src_align\":" << (MT->getSourceAlign() ? MT->getSourceAlign()->value() : 0);
            if (auto *DV = dyn_cast<DbgVariableIntrinsic>(&I))
              if (auto *V = DV->getVariable())
                O << ",\"dbgvar\":" << jstr(V->getName());
          }
          if (auto *CI = dyn_cast<CastInst>(&I)) {
            Type *ST = CI->getSrcTy();
            if (ST->isIntegerTy()) O << ",\"src_bits\":" << ST->getIntegerBitWidth();
            O << ",\"src_ty\":" << jstr(tystr(ST));
          }
          // SCEV for int / pointer valued instructions
          if (SE.isSCEVable(I.getType()) && !isa<CallBase>(&I)) {
            const SCEV *S = SE.getSCEV(&I);
            if (!isa<SCEVUnknown>(S) || isa<PHINode>(&I))
              O << ",\"scev\":" << scevJson(S, C, LI);
          }
          O << "}";
        }
    }
    O << "]";
    // alloca names from dbg.declare / value names
    O << ",\"locals\":{";
    {
      bool first = true;
      for (BasicBlock &B : F)
        for (Instruction &I : B)
          if (auto *DD = dyn_cast<DbgDeclareInst>(&I))
            if (auto *A = dyn_cast_or_null<AllocaInst>(DD->getAddress())) {
              if (!first) O << ",";
              first = false;
              O << "\"" << C.instId[A] << "\":" << jstr(DD->getVariable()->getName());
            }
    }
    O << "}";
    O << "}";
  }
  O << "]}\n";
  O.flush();
  return 0;
}
