#!/bin/sh
# tools/seedrun.sh <patch file> <check ids...> : apply a seeded patch to /repo, run checks with evidence redirected, undo.
P="$1"; shift
cd /verif
git -C /repo apply "$P" || { echo "patch does not apply"; exit 3; }
D=$(mktemp -d /tmp/tjseed-XXXXXX)
for c in "$@"; do
  out=$(TJ_EVIDENCE_DIR="$D" python3 -m tj.check "$c" 2>&1); r=$?
  echo "$(basename $(dirname $P)) $c rc=$r $(echo "$out" | grep -E 'refuted:|ANALYSIS-BROKEN' | head -4 | tr '\n' ' ' | cut -c1-600)"
done
git -C /repo checkout -- .
rm -rf "$D"
