#!/usr/bin/env python3
"""tools/mkrules.py: regenerate the 'rules per check as built' table in DESIGN.md (between the RULES markers) from the evidence
files of the last run on the pinned tree."""
import json, os, re
root = os.path.dirname(os.path.dirname(os.path.abspath(__file__)))
rows = []
for i in range(1, 21):
    pid = "C%02d" % i
    e = json.load(open(os.path.join(root, "evidence", pid + ".json")))
    cov = e["coverage"]
    rules = sorted({re.sub(r"^R-C\d\d-", "", r) for r in cov.get("per_rule", {})})
    rows.append("| %s | %s | %s | %.1f |" % (pid, " ".join(rules), cov.get("obligations"), e.get("wall_s", 0)))
table = "| check | rules (R-Cxx-…; each is described in the check's evidence file and level_note) | obligations on the pinned tree | seconds |\n|---|---|---|---|\n" + "\n".join(rows)
p = os.path.join(root, "DESIGN.md")
s = open(p).read()
a, b = "<!-- RULES:BEGIN -->", "<!-- RULES:END -->"
if a in s:
    s = s[:s.index(a) + len(a)] + "\n" + table + "\n" + s[s.index(b):]
else:
    m = re.search(r"\| check \| rules \(R-Cxx.*?\n(\|.*\n)+", s)
    s = s[:m.start()] + a + "\n" + table + "\n" + b + "\n" + s[m.end():]
open(p, "w").write(s)
print("rules table: %d checks" % len(rows))
