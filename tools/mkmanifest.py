#!/usr/bin/env python3
"""Regenerates MANIFEST.json from tj/manifest_data.py (single source of truth)."""
import json, os, sys
sys.path.insert(0, os.path.dirname(os.path.dirname(os.path.abspath(__file__))))
from tj.manifest_data import CHECKS, NOT_APPLICABLE, NOTES, HOOK_COMMITS
props = [json.loads(l)["id"] for l in open(os.path.join(os.path.dirname(__file__), "..", "properties.jsonl"))]
checks = []
for pid in props:
    if pid not in CHECKS:
        continue
    c = CHECKS[pid]
    checks.append({
        "property_id": pid,
        "quick_cmd": "./check %s --tier quick" % pid,
        "thorough_cmd": "./check %s --tier thorough" % pid,
        "evidence_file": "/verif/evidence/%s.json" % pid,
        "replay_cmd_template": "./check %s --replay {path}" % pid,
        "engine": "tj",
        "level_claimed": {"category": c.get("category", "other"), "text": c["text"], "design_ref": c.get("design_ref", "DESIGN.md section 5/" + pid)},
        "level_note": c["note"],
        "technique": c["technique"],
    })
na = [{"property_id": p, "reason": NOT_APPLICABLE[p]} for p in props if p not in CHECKS]
for p in props:
    assert p in CHECKS or p in NOT_APPLICABLE, p
m = {
    "version": 1,
    "setup_cmd": "./setup.sh",
    "hooks": {"guard": "TINYJAMBU_VERIF", "enable": "none needed: the checks analyse the unmodified sources (no hook commits)",
              "baseline_off_cmd": "cmake -G Ninja -S /repo -B /repo/_build && cmake --build /repo/_build && ctest --test-dir /repo/_build -j8 --timeout 900",
              "source_commits": HOOK_COMMITS, "add_only": True},
    "engines": [{"name": "tj", "path": "/verif/tj", "serves_properties": [c["property_id"] for c in checks],
                 "kind_free_text": "static analysis: LLVM-14 fact extractor (tools/tjfacts.cc) + Python abstract domains and rules over clang IR and preprocessed assembly"}],
    "checks": checks,
    "notes": NOTES,
    "not_applicable": na,
}
json.dump(m, open(os.path.join(os.path.dirname(__file__), "..", "MANIFEST.json"), "w"), indent=1)
print("MANIFEST.json: %d checks, %d not_applicable" % (len(checks), len(na)))
