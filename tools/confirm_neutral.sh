#!/bin/sh
# tools/confirm_neutral.sh <worktree> <nNN> "<properties>" "<title>"
# Confirms in the scratch worktree that a refactoring produced by an independent sub-agent passes the suite and that its
# differential demo prints the same checksum with and without the change; stores it as mutants/<nNN>.patch (+ demo).
WT="$1"; ID="$2"; PROPS="$3"; TITLE="$4"
DEMO="gcc -O1 -I$WT/src $WT/deliver/demo.c $WT/_build/src/libtinyjambu_static.a -o $WT/deliver/demo.bin && $WT/deliver/demo.bin"
[ -f "$WT/deliver/run.sh" ] && DEMO="sh $WT/deliver/run.sh"
cd "$WT" || exit 2
git diff -- src > /tmp/$ID.patch
[ -s /tmp/$ID.patch ] || { echo "no source change"; exit 2; }
cmake -G Ninja -S "$WT" -B "$WT/_build" >/dev/null 2>&1; cmake --build "$WT/_build" >/dev/null 2>&1 || { echo "BUILD FAILS"; exit 1; }
T1=$(ctest --test-dir "$WT/_build" -j8 2>&1 | grep "tests passed")
A=$(sh -c "$DEMO" 2>&1 | tail -3 | md5sum | cut -c1-12); AL=$(sh -c "$DEMO" 2>&1 | tail -1)
git apply -R /tmp/$ID.patch || exit 2
cmake --build "$WT/_build" >/dev/null 2>&1
B=$(sh -c "$DEMO" 2>&1 | tail -3 | md5sum | cut -c1-12); BL=$(sh -c "$DEMO" 2>&1 | tail -1)
git apply /tmp/$ID.patch; cmake --build "$WT/_build" >/dev/null 2>&1
echo "suite: $T1"; echo "with: $AL"; echo "without: $BL"
case "$T1" in "100% tests passed"*) ;; *) echo "NOT KEPT: suite"; exit 1;; esac
[ "$A" = "$B" ] || { echo "NOT KEPT: checksums differ"; exit 1; }
( echo "# $ID [neutral, independent sub-agent] properties=$PROPS: $TITLE (differential demo: $AL)"; cat /tmp/$ID.patch ) > /verif/mutants/$ID.patch
mkdir -p /verif/mutants/neutral-demos; cp "$WT/deliver/demo.c" /verif/mutants/neutral-demos/$ID.c; cp "$WT/deliver/notes.txt" /verif/mutants/neutral-demos/$ID.notes.txt 2>/dev/null
echo "KEPT as mutants/$ID.patch"
