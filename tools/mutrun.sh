#!/bin/sh
# tools/mutrun.sh <patch file> <check ids...> : apply a corpus patch to a scratch copy of /repo
# (never to /repo itself) and run the named checks against the copy. Evidence goes to a scratch dir.
P="$1"; shift
D=$(mktemp -d /tmp/tjmut-XXXXXX)
trap 'rm -rf "$D"' EXIT
mkdir -p "$D/repo" "$D/ev"
rsync -a --exclude _build --exclude .git /repo/ "$D/repo/"
if ! patch -s -p1 -d "$D/repo" < "$P" >/dev/null 2>&1; then echo "SKIPPED $(basename $P): patch does not apply"; exit 3; fi
cd /verif
rc=0
for c in "$@"; do
  out=$(TJ_REPO="$D/repo" TJ_EVIDENCE_DIR="$D/ev" python3 -m tj.check "$c" 2>&1); r=$?
  echo "$(basename $P .patch) $c rc=$r $(echo "$out" | grep -E 'refuted:|ANALYSIS-BROKEN' | head -3 | tr '\n' ' ' | cut -c1-300)"
  [ $r -gt $rc ] && rc=$r
done
exit $rc
