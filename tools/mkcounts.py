#!/usr/bin/env python3
"""tools/mkcounts.py: refresh the corpus counts quoted in DESIGN.md 0.1 from the files under mutants/ and seeded/."""
import os, re, glob, json
root = os.path.dirname(os.path.dirname(os.path.abspath(__file__)))
mut = len(glob.glob(os.path.join(root, "mutants", "m*.patch")))
neu = glob.glob(os.path.join(root, "mutants", "n*.patch"))
agent = sum(1 for p in neu if "independent sub-agent" in open(p, errors="replace").readline())
own = len(neu) - agent
seeds = [d for d in glob.glob(os.path.join(root, "seeded", "*")) if os.path.isdir(d)]
rounds = sorted({json.load(open(os.path.join(d, "meta.json"))).get("round", "a") for d in seeds if os.path.exists(os.path.join(d, "meta.json"))} - {"?"})
line = ("/verif/mutants/, seeded/   validation corpus (data): %d mutants + %d neutral refactors of mine + %d neutral refactors and %d breaking\n"
        "                           changes from independent sub-agents (seed rounds %s-%s%s, neutral rounds one to twenty-eight)\n" % (mut, own, agent, len(seeds), rounds[0], max(r for r in rounds if len(r) == 1), " and aa" if "aa" in rounds else ""))
p = os.path.join(root, "DESIGN.md")
s = open(p).read()
s2 = re.sub(r"/verif/mutants/, seeded/   validation corpus \(data\):.*?\n.*?\n", line, s, count=1, flags=re.S)
open(p, "w").write(s2)
print(line)
