#!/usr/bin/env python3
"""Regenerates DESIGN.md section 0.6 (between the VALIDATION markers) from REGRESSION-cross.md and seeded/*/meta.json."""
import json, os, re
V = os.path.dirname(os.path.dirname(os.path.abspath(__file__)))
rows = []
for l in open(os.path.join(V, "REGRESSION-cross.md")):
    m = re.match(r"\| (\S+) \| (\w+) \| ([C0-9,]*) \| (.*?) \| (.*) \|$", l.rstrip("\n"))
    if m and m.group(1) != "change":
        res = dict(x.split(": ") for x in m.group(4).split(", ") if ": " in x)
        rows.append((m.group(1), m.group(2), m.group(3).split(",") if m.group(3) else [], res))
tail = [l.rstrip("\n") for l in open(os.path.join(V, "REGRESSION-cross.md")) if l.startswith(("missed", "false alarms", "analysis-broken", "checks of OTHER"))]
out = []
nm = sum(1 for r in rows if r[1] == "mutant")
ns = sum(1 for r in rows if r[1] == "seeded")
nn = sum(1 for r in rows if r[1] == "neutral")
def _independent(name):
    p = os.path.join(V, "mutants", name + ".patch")
    try:
        return "independent sub-agent" in open(p).readline()
    except OSError:
        return False


nind = sum(1 for r in rows if r[1] == "neutral" and _independent(r[0]))
out.append("Corpus: %d one-edit mutants and %d behaviour-preserving refactors written with the design, %d behaviour-preserving refactors written by independent" % (nm, nn - nind, nind))
out.append("sub-agents (each with a differential demo whose checksum I re-ran before and after: `mutants/neutral-demos/`), and %d breaking changes produced by independent" % ns)
out.append("sub-agents that were given only a property's text and a scratch worktree (`seeded/<id>/`: patch, demo that fails with / passes without the change,")
out.append("notes, meta.json with what I ran to confirm it: the 40 baseline tests pass with every one of them). `tools/regress.py --cross` applies each change to a")
out.append("scratch copy of /repo and runs ALL twenty checks from a frozen copy of the checker code; full matrix in `REGRESSION-cross.md`. 1 = VIOLATION, 0 = silent,")
out.append("2 = ANALYSIS-BROKEN (the analyser says it cannot follow the changed code: neither a detection nor an alarm).")
out.append("")
out.append("**Seeded changes (independent sub-agents)** — own = result of the check of the property the change was written against:")
out.append("")
out.append("| seed | breaks | own check | other checks that report it | what it needs to manifest |")
out.append("|---|---|---|---|---|")
for name, kind, props, res in rows:
    if kind != "seeded":
        continue
    meta = json.load(open(os.path.join(V, "seeded", name, "meta.json")))
    own = ", ".join("%s: %s" % (p, {"1": "VIOLATION", "0": "silent (MISS)", "2": "exit 2 (not analysable)"}.get(res.get(p), res.get(p))) for p in props)
    others = ", ".join(sorted(c for c, r in res.items() if r == "1" and c not in props))
    need = meta.get("needs_to_manifest", "")
    if need.startswith("see notes"):
        nt = os.path.join(V, "seeded", name, "notes.txt")
        need = open(nt).readline().strip()[:110] if os.path.exists(nt) else ""
    out.append("| %s | %s | %s | %s | %s |" % (name, ",".join(props), own, others or "-", need.replace("|", "/")[:140]))
out.append("")
det = sum(1 for n, k, p, r in rows if k == "mutant" and any(r.get(x) == "1" for x in p))
brk = [(n, p) for n, k, p, r in rows if k == "mutant" and not any(r.get(x) == "1" for x in p)]
out.append("**Corpus mutants:** %d of %d reported by a check of (one of) their properties; the others: %s." % (det, nm, ", ".join("%s (%s: %s)" % (n, "/".join(p), "/".join({"0": "silent", "2": "exit 2"}.get(next(r for nn_, k, pp, r in rows if nn_ == n).get(x), "?") for x in p)) for n, p in brk) or "none"))
fa = [(n, c) for n, k, p, r in rows if k == "neutral" for c, x in r.items() if x == "1"]
b2 = [(n, c) for n, k, p, r in rows if k == "neutral" for c, x in r.items() if x == "2"]
out.append("**Neutral refactors (%d, each against all 20 checks = %d runs):** VIOLATION reported: %s; exit 2: %s." % (nn, nn * 20, fa or "none", ", ".join("%s/%s" % x for x in b2) or "none"))
out.append("")
for t in tail:
    out.append(t[:6000])
    out.append("")
s = open(os.path.join(V, "DESIGN.md")).read()
a, b = s.index("<!-- VALIDATION:BEGIN -->"), s.index("<!-- VALIDATION:END -->")
s = s[:a] + "<!-- VALIDATION:BEGIN -->\n" + "\n".join(out) + "\n" + s[b:]
open(os.path.join(V, "DESIGN.md"), "w").write(s)
print("section 0.6 regenerated: %d rows" % len(rows))
