#!/usr/bin/env python3
"""Incremental corpus run: tools/regress_update.py C13,C15,...
Re-runs the named checks (from a snapshot of the current code) on every corpus item, runs ALL checks on items that have no row yet
in REGRESSION-cross.md, merges the results into the existing table and rewrites the summary lines.  Used when rules of a few
checks changed after a full `regress.py --cross` run (which takes two hours); the header of the table says which columns were
refreshed when."""
import datetime, os, re, shutil, subprocess, sys, tempfile
from concurrent.futures import ThreadPoolExecutor
sys.path.insert(0, os.path.dirname(os.path.abspath(__file__)))
sys.argv.append("--cross")
import regress as R

V = R.V
PATH = os.path.join(V, "REGRESSION-cross.md")


def load():
    rows, order = {}, []
    for l in open(PATH):
        m = re.match(r"\|\s*(\S+)\s*\|\s*(\w+)\s*\|\s*([^|]*)\|([^|]*)\|(.*)\|\s*$", l)
        if m and m.group(1) not in ("change", "---"):
            res = {}
            for x in m.group(4).split(","):
                if ":" in x:
                    a, b = x.split(":")
                    res[a.strip()] = (int(b) if b.strip().isdigit() else b.strip(), "")
            rows[m.group(1)] = {"kind": m.group(2), "props": [p for p in m.group(3).strip().split(",") if p], "res": res, "first": m.group(5).strip()}
            order.append(m.group(1))
    return rows, order


def run_item(args):
    item, targets = args
    name, props, patch, neutral = item
    d = tempfile.mkdtemp(prefix="tjreg-")
    res = {}
    try:
        subprocess.run(["rsync", "-a", "--exclude", "_build", "--exclude", ".git", "/repo/", d + "/repo/"], check=True)
        p = subprocess.run(["patch", "-s", "-p1", "-d", d + "/repo"], stdin=open(patch), stdout=subprocess.PIPE, stderr=subprocess.STDOUT)
        if p.returncode != 0:
            return name, None
        for c in targets:
            env = dict(os.environ, TJ_REPO=d + "/repo", TJ_EVIDENCE_DIR=d + "/ev")
            q = subprocess.run([sys.executable, "-m", "tj.check", c], cwd=R.SNAP or V, env=env, stdout=subprocess.PIPE, stderr=subprocess.STDOUT, text=True)
            first = ""
            for l in q.stdout.splitlines():
                if "refuted:" in l or "ANALYSIS-BROKEN" in l:
                    first = l.strip()[:160]
                    break
            res[c] = (q.returncode, first)
    finally:
        shutil.rmtree(d, ignore_errors=True)
    return name, res


def main():
    checks = [c for c in sys.argv[1].split(",") if c in R.CHECKS]
    rows, order = load()
    items = R.corpus()
    work = []
    # a check is re-run on an old row only if the row's patch touches a file the check's rules read at all (a change to the AEAD files
    # cannot move the verdict of the HKDF check): FOOT maps check -> substrings of file names; checks not listed are re-run everywhere
    FOOT = {"C10": ("hash", "backend"), "C11": ("hash", "backend"), "C12": ("hmac", "hash", "backend"), "C13": ("hkdf", "hmac", "hash", "backend"),
            "C14": ("pbkdf2", "hmac", "hash", "backend"), "C15": ("prng", "hash", "backend", "random"), "C16": ("prng", "hash", "backend", "random"),
            "C17": ("prng", "hash", "backend", "random")}
    for it in items:
        if it[0] in rows:
            files = " ".join(l for l in open(it[2]) if l.startswith("+++ "))
            mine = [c for c in checks if c not in FOOT or any(k in files for k in FOOT[c])]
            if mine:
                work.append((it, mine))
        else:
            work.append((it, list(R.CHECKS)))
    R.snapshot()
    try:
        with ThreadPoolExecutor(max_workers=int(os.environ.get("TJ_WORKERS", "12"))) as ex:
            results = list(ex.map(run_item, work))
    finally:
        shutil.rmtree(R.SNAP, ignore_errors=True)
    bymeta = {it[0]: it for it in items}
    new = 0
    for name, res in results:
        if res is None:
            continue
        it = bymeta[name]
        if name not in rows:
            rows[name] = {"kind": "neutral" if it[3] else ("seeded" if "-s" in name else "mutant"), "props": it[1], "res": {}, "first": ""}
            order.append(name)
            new += 1
        rows[name]["res"].update(res)
        fr = next((r[1] for c, r in sorted(rows[name]["res"].items()) if r[1]), "")
        if fr:
            rows[name]["first"] = fr.replace("|", "/")
    stamp = datetime.datetime.utcnow().strftime("%H:%M UTC")
    lines = ["# Checker self-test (tools/regress.py)", "",
             "Every row is a scratch copy of /repo with one patch applied; `1` = VIOLATION reported, `0` = silent, `2` = ANALYSIS-BROKEN.",
             "Columns %s re-run on every row, and %d new rows added, by tools/regress_update.py with the code of %s (the other columns are from the last full run)."
             % (",".join(checks) or "(none)", new, stamp), "",
             "| change | kind | breaks | results (check: exit) | first report |", "|---|---|---|---|---|"]
    missed, false_alarm, broken, cross = [], [], [], []
    for name in order:
        if name not in bymeta:
            continue
        r = rows[name]
        neutral = r["kind"] == "neutral"
        props = r["props"]
        rs = ", ".join("%s: %s" % (c, v[0]) for c, v in sorted(r["res"].items()))
        lines.append("| %s | %s | %s | %s | %s |" % (name, r["kind"], ",".join(props), rs, r["first"]))
        for c, v in r["res"].items():
            if not neutral and c not in props:
                if v[0] == 1:
                    cross.append((name, c))
                continue
            if neutral and v[0] == 1:
                false_alarm.append((name, c))
            if v[0] == 2:
                broken.append((name, c))
            if not neutral and v[0] == 0:
                missed.append((name, c))
    lines += ["", "missed (mutant/seed not reported by a check of its property): %s" % (missed or "none"),
              "false alarms on neutral refactors: %s" % (false_alarm or "none"), "analysis-broken (neither): %s" % (broken or "none"),
              "", "checks of OTHER properties that also report the change (each triaged in DESIGN.md 0.6: the other property is broken too, or the report was a checker error): %s" % (cross or "none")]
    open(PATH, "w").write("\n".join(lines) + "\n")
    print("\n".join(lines[-5:])[:3000])
    return 1 if false_alarm else 0


if __name__ == "__main__":
    sys.exit(main())
